"""C11 - content negotiation and handler resolution (DESIGN.md section 3, C11).

R1  score order by role (def-use roles of the match_score tuple - of EVERY
    return of a real score; literal components are decided from the
    emptiness facts that dominate the return -, sentinel,
    quality()/best_match() wiring); which main type / subtype pairs match
    at all, and how the two leading components rank them, is decided by
    interpreting match_score() on {'*', 'a', 'b'}^4 (_TypeModel): a wildcard
    on EITHER side matches, two different concrete tokens never do
R2  documented errors only (E5 summaries of quality/best_match, q validation)
R3  cache coherence of falcon.media.Handlers over its whole MRO, including the
    running interpreter's UserDict / MutableMapping source (parsed, never
    imported for behaviour); after a BULK write (update, |=, dict.__init__,
    comprehension or loop of stores - they can raise after storing some
    items) the cache_clear() must be reached on the exceptional exits too
R4  the resolution rule inside the resolver closure
R5  client_accepts / client_prefers swallow ValueError
R6  values handed out by memoised parsing helpers are never mutated
R7  get_media() of both Request flavours (and render_body() of both Response
    flavours) ask the resolver about the content type AS IT IS - the attribute
    read or a local bound to it, never a cut / re-cased / rewritten form
    (frozen table CT_TRANSFORMS) - with the options' default_media_type and
    without switching the 415 off; both flavours pass the same arguments
R8  q never decides WHETHER a range matches: the not-matching returns of
    match_score() and the range selection of _parse_media_ranges()/quality()
    do not read `quality` (shared with C04: r8_q_never_decides_match)
R9  the resolver compares the requested type with the registered keys in one
    case form - no one-sided lower()/upper()/casefold(), whether the requested
    type is folded whole or re-assembled from folded pieces (shared with C12:
    r9_same_case_form)
R10 client_accepts() / client_prefers() answer by negotiation over the whole
    Accept header: the call is wired (type(s), header) with both arguments in
    one case form (a lower()/casefold()/... of the header text only, or of the
    requested types only, is a violation), the quality is
    compared strictly with zero, and an answer given without the call is
    guarded by the EQUALITY of the whole header with the requested type or
    '*/*' - a substring / prefix / piece test deciding it is a violation

R11 the weight stored for a range is the float parsed from the q text itself
R12 every consumer of a Handlers mapping (attribute `media_handlers` of the
    options classes, typed from their __init__) obtains a handler through
    `_resolve(...)`: a plain mapping read (.get / [...] / .items / .values /
    .data) anywhere in the package outside falcon/media/handlers.py is a
    violation; registrations and key enumerations are tabled; WebSocketOptions'
    plain dict is out of scope
R13 _MediaRange.parse() is evaluated (concrete interpreter _ParseModel) on every
    ordered subset of the parameter names {a, q, b}: the params slot of the
    range built is the parsed mapping minus exactly the key 'q' - parameters
    written after q take part in matching like the others
R19 negotiation is a function of the CURRENT Accept header: the reads closure
    of Request.accept / client_accepts() / client_prefers() of both flavours
    (properties and methods of the class looked through, R7 likewise looks
    through an argument-less same-class helper) contains a read of the
    request's header table and no attribute that some member of the class
    assigns from that table (a memo slot filled on first access, a snapshot
    taken by __init__); the `_cached_*` attributes are inventoried against
    the tabled memoised accessors (MEMOISED_ACCESSORS)

R4 also decides the escape set of the resolver closure (through the bridge
helper _best_match and mediatypes.best_match): only HTTPUnsupportedMediaType
leaves it - "the designated handler or a 415".

R1's exact-parameter component (criterion 3) is decided semantically: the
defining expression is evaluated by a small interpreter (_ParamModel) on all
pairs of parameter-name sets over a three-name universe that are consistent
with the tests dominating the return; dict views (`.keys()`, `.items()`) and
`==` of the two mappings are read too - an expression that reads the VALUES is
evaluated on every conflict-free assignment of two values to the names, so
`a.items() <= b.items()` (one-way inclusion) is a violation with a concrete
pair and `a.items() == b.items()` passes.  `len(a) == len(b)` and other look-alikes
(EXACT_LOOKALIKES) are violations with a concrete pair of name sets; `a == b`,
`not (a ^ b)`, two-way inclusion etc. pass; expressions outside the
interpreter's language stay unknown idioms.

Readings shared by the rules (second preserving wave, k2-c11-*): a module-level
name bound exactly once to a str / number literal is its value
(_module_literal: `_WILDCARD = '*'` ... `x == _WILDCARD`; R1, R4, R11, R13,
R16); R3 counts a call `self.<helper>()` as the cache_clear() when every
normal path of that same-class helper (transitively, depth <= 3) performs
`self._resolve.cache_clear()`; R1's parameter-value clause reads
`any(a != b for n in names)` / `all(a == b ...)` / a filtered comprehension /
a local bound once to one of them as the loop with the early return it
replaces; R4 does not blame a lookup observed behind a test that reads the
requested type and could not be evaluated (unknown idiom instead).

Roles are found by def-use from contract names (attribute names main_type /
subtype / params / quality, parameter positions of the resolver, the tuple
positions of best_match's candidates) - never from local variable names.
"""

from __future__ import annotations

import ast
from typing import Dict, List, Optional, Set, Tuple

from .. import flow
from ..cfg import cfg_of
from ..escape import Escape
from ..flow import ERROR
from ..model import (UNKNOWN, AnalysisError, AnchorError, Class, Func, UnknownIdiom, dotted, func_owner_class, local_names, short,
                     stdlib_source, unparse, walk_no_nested)
from .common import enclosing_map, implied, is_self_attr, single, walk_self

MEDIATYPES = 'falcon.util.mediatypes'
HANDLERS = 'falcon.media.handlers.Handlers'
INVALID_TYPE = 'falcon.errors.InvalidMediaType'
INVALID_RANGE = 'falcon.errors.InvalidMediaRange'


# ---------------------------------------------------------------------------
# small shared helpers
# ---------------------------------------------------------------------------

def _param_names(f: Func, skip_self=True) -> List[str]:
    a = f.node.args
    names = [x.arg for x in a.posonlyargs + a.args]
    if skip_self and names and names[0] in ('self', 'cls') and f.cls is not None and f.parent is None:
        names = names[1:]
    return names


def _returns(f: Func) -> List[ast.Return]:
    return [n for n in walk_self(f.node) if isinstance(n, ast.Return)]


def _assignments(fnode, name: str) -> List[Tuple[ast.stmt, Optional[ast.AST]]]:
    """(statement, value) of every binding of local `name` in the def
    (value None when the binding is not a plain single-target assignment)."""
    out = []
    for n in walk_self(fnode):
        if isinstance(n, ast.Assign):
            for t in n.targets:
                if isinstance(t, ast.Name) and t.id == name:
                    out.append((n, n.value))
                elif any(isinstance(x, ast.Name) and x.id == name for x in ast.walk(t)) and not isinstance(t, ast.Name):
                    if isinstance(t, (ast.Tuple, ast.List)):
                        out.append((n, None))
        elif isinstance(n, ast.AnnAssign) and isinstance(n.target, ast.Name) and n.target.id == name and n.value is not None:
            out.append((n, n.value))
        elif isinstance(n, ast.AugAssign) and isinstance(n.target, ast.Name) and n.target.id == name:
            out.append((n, None))
        elif isinstance(n, (ast.For, ast.AsyncFor)) and any(isinstance(x, ast.Name) and x.id == name for x in ast.walk(n.target)):
            out.append((n, None))
        elif isinstance(n, ast.NamedExpr) and isinstance(n.target, ast.Name) and n.target.id == name:
            out.append((n, n.value))
        elif isinstance(n, (ast.With, ast.AsyncWith)):
            for it in n.items:
                if it.optional_vars is not None and any(isinstance(x, ast.Name) and x.id == name for x in ast.walk(it.optional_vars)):
                    out.append((n, None))
    return out


def _is_const_num(e, values=None) -> bool:
    if isinstance(e, ast.Constant) and isinstance(e.value, (int, float)) and not isinstance(e.value, bool):
        return values is None or e.value in values
    return False


def _is_num_literal(e) -> bool:
    if isinstance(e, ast.UnaryOp) and isinstance(e.op, (ast.USub, ast.UAdd)):
        e = e.operand
    return _is_const_num(e)


def _unwrap_cast(e):
    """typing.cast(T, x) -> x"""
    while isinstance(e, ast.Call) and isinstance(e.func, (ast.Name, ast.Attribute)) and \
            (dotted(e.func) or '').split('.')[-1] == 'cast' and len(e.args) == 2:
        e = e.args[1]
    return e


_BINDING_COUNT_CACHE: Dict[Tuple[int, str], int] = {}


def _module_binding_count(m, name: str) -> int:
    """How often the module binds `name`: top-level stores (also inside top-level if/try/with/for blocks), plus a
    large number when some def of the module declares it `global` (it may then be rebound at run time)."""
    key = (id(m.tree), name)
    if key not in _BINDING_COUNT_CACHE:
        n = 0
        stack = list(m.tree.body)
        while stack:
            x = stack.pop()
            if isinstance(x, (ast.FunctionDef, ast.AsyncFunctionDef, ast.ClassDef)):
                if x.name == name:
                    n += 1
                for g in ast.walk(x):
                    if isinstance(g, ast.Global) and name in g.names:
                        n += 100
                continue
            if isinstance(x, ast.Name) and isinstance(x.ctx, (ast.Store, ast.Del)) and x.id == name:
                n += 1
            elif isinstance(x, (ast.Import, ast.ImportFrom)):
                n += sum(1 for a in x.names if (a.asname or a.name).split('.')[0] == name)
            stack.extend(ast.iter_child_nodes(x))
        _BINDING_COUNT_CACHE[key] = n
    return _BINDING_COUNT_CACHE[key]


def _module_literal(p, f: Func, e, tuples=False):
    """Reading ability (3): a module-level name (of this or of an imported package module) that is bound exactly ONCE
    to a str / number literal is its value - `_WILDCARD = '*'` ... `x == _WILDCARD` reads like `x == '*'`.
    UNKNOWN for locals, parameters, rebound names and anything that does not fold to a scalar."""
    if not isinstance(e, (ast.Name, ast.Attribute)) or p is None:
        return UNKNOWN
    m = f.module
    if isinstance(e, ast.Name):
        g = f
        while g is not None:
            if e.id in local_names(g):
                return UNKNOWN
            g = g.parent
    if isinstance(e, ast.Name) and e.id in m.consts:
        owner, name = m, e.id
    else:
        q = p.resolve_expr(m, e, f)
        if not q:
            return UNKNOWN
        head, _, name = q.rpartition('.')
        owner = p.modules.get(head)
        if owner is None or name not in owner.consts:
            return UNKNOWN
    if _module_binding_count(owner, name) != 1:
        return UNKNOWN
    node = owner.consts[name]
    if tuples and isinstance(node, ast.Tuple):
        # a tuple display of plain constants (`_UNRESOLVED = (None, None, None)`): tuples are immutable, the name is bound
        # once, so every read of the name is this value
        if all(isinstance(x, ast.Constant) and (x.value is None or isinstance(x.value, (str, int, float, bytes))) for x in node.elts):
            return tuple(x.value for x in node.elts)
        return UNKNOWN
    v = p.fold(owner, node)
    if isinstance(v, bool) or not isinstance(v, (str, int, float)):
        return UNKNOWN
    return v


def _lit(p, f: Func, e):
    """`e` as a literal node: itself when it is a Constant, a Constant of the value for a once-bound module-level
    literal name, else `e` unchanged."""
    if isinstance(e, (ast.Name, ast.Attribute)):
        v = _module_literal(p, f, e, tuples=True)
        if isinstance(v, tuple):
            return ast.copy_location(ast.Tuple(elts=[ast.copy_location(ast.Constant(value=x), e) for x in v], ctx=ast.Load()), e)
        if v is not UNKNOWN:
            return ast.copy_location(ast.Constant(value=v), e)
    return e


# ---------------------------------------------------------------------------
# R1 score order by role
# ---------------------------------------------------------------------------

CONTRACT_ATTRS = ('main_type', 'subtype', 'params', 'quality')


class _Roles:
    """def-use feature extraction inside one function."""

    def __init__(self, f: Func):
        self.f = f
        self.parent = enclosing_map(f.node)

    def enclosing_ifs(self, stmt) -> List[ast.If]:
        out = []
        cur = self.parent.get(id(stmt))
        while cur is not None and cur is not self.f.node:
            if isinstance(cur, ast.If):
                out.append(cur)
            cur = self.parent.get(id(cur))
        return out

    def features(self, expr, seen=None, control=True) -> Tuple[Set[str], Set[str]]:
        attrs: Set[str] = set()
        ops: Set[str] = set()
        seen = set() if seen is None else seen
        for n in walk_self(expr):
            if isinstance(n, ast.Attribute) and n.attr in CONTRACT_ATTRS:
                attrs.add(n.attr)
            elif isinstance(n, ast.BinOp) and isinstance(n.op, ast.BitXor):
                ops.add('xor')
            elif isinstance(n, ast.BinOp) and isinstance(n.op, ast.BitAnd):
                ops.add('and')
            elif isinstance(n, ast.Call) and isinstance(n.func, ast.Attribute) and n.func.attr == 'symmetric_difference':
                ops.add('xor')
            elif isinstance(n, ast.Call) and isinstance(n.func, ast.Attribute) and n.func.attr == 'intersection':
                ops.add('and')
            elif isinstance(n, ast.Call) and isinstance(n.func, ast.Name) and n.func.id == 'len':
                ops.add('len')
            elif isinstance(n, ast.Name) and isinstance(n.ctx, ast.Load) and n.id not in seen and n.id not in ('self', 'cls'):
                binds = _assignments(self.f.node, n.id)
                if not binds:
                    continue
                seen.add(n.id)
                for stmt, val in binds:
                    if val is None:
                        if isinstance(stmt, (ast.For, ast.AsyncFor)):
                            a, o = self.features(stmt.iter, seen, control)
                            attrs |= a
                            ops |= o
                            continue
                        raise UnknownIdiom('%s: binding of %s in %s' % (self.f.qual, n.id, short(stmt, 80)))
                    a, o = self.features(val, seen, control)
                    attrs |= a
                    ops |= o
                    if control:
                        for i in self.enclosing_ifs(stmt):
                            a, _ = self.features(i.test, seen, control)
                            attrs |= a
        return attrs, ops


ROLE_DOC = ['main type match', 'subtype match', 'exact parameter-name match (symmetric difference empty)',
            'number of matching parameters (size of the intersection)', 'q of the range']


def _role_of(attrs: Set[str], ops: Set[str]) -> Optional[int]:
    if attrs == {'main_type'} and not ops & {'xor', 'and'}:
        return 0
    if attrs == {'subtype'} and not ops & {'xor', 'and'}:
        return 1
    if attrs == {'params'} and 'xor' in ops and 'and' not in ops:
        return 2
    if attrs == {'params'} and 'and' in ops and 'xor' not in ops:
        return 3
    if attrs == {'quality'} and not ops:
        return 4
    return None


def _contains(root, node) -> bool:
    return any(n is node for n in ast.walk(root))


def _expand_name(f: Func, e):
    """A Name with exactly one plain assignment -> its value."""
    if isinstance(e, ast.Name):
        binds = _assignments(f.node, e.id)
        if len(binds) == 1 and binds[0][1] is not None:
            return binds[0][1]
    return e


# --- the exact-parameter component, decided on a bounded model --------------
#
# Criterion (3) is a function of the two parameter-NAME sets only: one value
# when they are equal, a smaller one when they differ.  However the source
# spells it (`0 if a ^ b else 1`, `a == b`, `not a.symmetric_difference(b)`,
# `a <= b and b <= a`, `len(a ^ b) == 0`, an if/else that assigns constants),
# the expression is *evaluated* here - by an interpreter of the enumerated
# expression language below, never by running falcon code - on every pair of
# name sets over a three-name universe that is consistent with the tests
# dominating the return.  A pair of equal sets and a pair of different sets
# with the same value (or two pairs of one kind with different values) is a
# concrete counter-example, so a violation always carries real inputs.
# Anything outside the language is an unknown idiom, never a violation.
#
# Frozen look-alike table (DESIGN 1.3 item 5): substitutes that read like the
# exact test and are not.  The model finds the witness; the table only names
# the family in the message.
EXACT_LOOKALIKES = {
    'sizes': 'it is derived from the two parameter collections only through len() - equal SIZES do not mean equal name sets '
             '(same number of parameters under different names)',
    'inclusion': 'one-way inclusion (subset / superset of the names or of the items) is not equality: a range without parameters '
                 'is included in every media type',
    'other': 'it does not separate "same parameter names" from "different parameter names"',
}

_MODEL_UNIVERSE = ('a', 'b', 'c')


class _OutOfModel(Exception):
    """expression outside the enumerated language -> UnknownIdiom at the caller"""


class _PDict:
    """the parameter mapping of one side: its names and (for the dict views that read them) one value per name"""
    __slots__ = ('names', 'map')

    def __init__(self, names, values=None):
        self.names = frozenset(names)
        self.map = {n: (values or {}).get(n, 1) for n in self.names}


class _PView(_PDict):
    """dict.keys() of a parameter mapping: set-like for operators, no set methods"""
    __slots__ = ()


class _PItems:
    """dict.items() of a parameter mapping: a set-like of (name, value) pairs - operators and isdisjoint(), no set methods"""
    __slots__ = ('pairs',)

    def __init__(self, mapping):
        self.pairs = frozenset(mapping.items())


_SET_OPS = {ast.BitXor: frozenset.__xor__, ast.BitAnd: frozenset.__and__, ast.BitOr: frozenset.__or__, ast.Sub: frozenset.__sub__}
_SET_METHODS = {'symmetric_difference': frozenset.symmetric_difference, 'intersection': frozenset.intersection,
                'union': frozenset.union, 'difference': frozenset.difference, 'issubset': frozenset.issubset,
                'issuperset': frozenset.issuperset, 'isdisjoint': frozenset.isdisjoint}
_CMP_OPS = {ast.Eq: lambda a, b: a == b, ast.NotEq: lambda a, b: a != b, ast.Lt: lambda a, b: a < b, ast.LtE: lambda a, b: a <= b,
            ast.Gt: lambda a, b: a > b, ast.GtE: lambda a, b: a >= b}


def _is_number(v) -> bool:
    return isinstance(v, (int, float))       # bool included: True == 1 in a score tuple


class _ParamModel:
    """Interpreter for expressions over the two parameter collections of
    match_score (`self.params`, `<other>.params`).

    language: numeric constants; `X.params`; frozenset()/set()/dict()/.keys()/
    .items()/.copy() of a collection; set operators ^ & | - and the
    corresponding set methods; issubset/issuperset/isdisjoint; len()/bool()/
    int()/abs(); + and - on numbers; unary not/-; and/or (Python value
    semantics); comparisons between two numbers, between two set-likes
    (frozensets, keys views, items views) or `==`/`!=` of the two mappings
    themselves; conditional expressions; locals bound once at the top level of
    the function, or bound to values in the branches of one top-level
    if-statement (optionally after a default).

    Values: an items view / a comparison of the mappings reads the parameter
    VALUES too (`touched`); the caller then evaluates on every assignment of
    two values to the names in which a name present on both sides carries the
    SAME value (a pair with a value conflict never reaches a real score: part
    (d) - a parameter value mismatch yields the sentinel)."""

    def __init__(self, roles: _Roles, other: str):
        self.roles = roles
        self.f = roles.f
        self.other = other

    # -- values
    @staticmethod
    def _names(v) -> frozenset:
        """the elements of a collection: names, or (name, value) pairs of an items view"""
        if isinstance(v, _PDict):
            return v.names
        if isinstance(v, _PItems):
            return v.pairs
        if isinstance(v, frozenset):
            return v
        raise _OutOfModel('not a collection')

    @staticmethod
    def _setlike(v) -> bool:
        return isinstance(v, (frozenset, _PView, _PItems))

    def _truth(self, v) -> bool:
        if _is_number(v):
            return bool(v)
        return bool(self._names(v))

    # -- expressions
    def value(self, e, A: frozenset, B: frozenset, values_a=None, values_b=None):
        self._A, self._B, self._busy = A, B, set()
        self._VA, self._VB = values_a, values_b
        self.touched = False                   # did the evaluation read parameter VALUES?
        v = self._ev(e, 0)
        if not _is_number(v):
            raise _OutOfModel('%s is not a number' % short(e, 40))
        return v

    def _ev(self, e, depth):
        if depth > 40:
            raise _OutOfModel('expression too deep')
        e = _unwrap_cast(e)
        d = depth + 1
        if isinstance(e, ast.Constant):
            if _is_number(e.value):
                return e.value
            raise _OutOfModel('constant %r' % (e.value,))
        if isinstance(e, ast.Attribute):
            if e.attr == 'params' and isinstance(e.value, ast.Name) and e.value.id in ('self', self.other):
                return _PDict(self._A, self._VA) if e.value.id == 'self' else _PDict(self._B, self._VB)
            raise _OutOfModel('attribute %s' % short(e, 40))
        if isinstance(e, ast.Name):
            return self._name(e, d)
        if isinstance(e, ast.UnaryOp):
            v = self._ev(e.operand, d)
            if isinstance(e.op, ast.Not):
                return not self._truth(v)
            if isinstance(e.op, (ast.USub, ast.UAdd)) and _is_number(v):
                return -v if isinstance(e.op, ast.USub) else +v
            raise _OutOfModel('operator in %s' % short(e, 40))
        if isinstance(e, ast.BoolOp):
            v = None
            for x in e.values:
                v = self._ev(x, d)
                if self._truth(v) != isinstance(e.op, ast.And):
                    return v
            return v
        if isinstance(e, ast.IfExp):
            return self._ev(e.body if self._truth(self._ev(e.test, d)) else e.orelse, d)
        if isinstance(e, ast.BinOp):
            l, r = self._ev(e.left, d), self._ev(e.right, d)
            if self._setlike(l) and self._setlike(r) and type(e.op) in _SET_OPS:
                return _SET_OPS[type(e.op)](self._names(l), self._names(r))
            if _is_number(l) and _is_number(r) and isinstance(e.op, (ast.Add, ast.Sub)):
                return l + r if isinstance(e.op, ast.Add) else l - r
            raise _OutOfModel('operator in %s' % short(e, 40))
        if isinstance(e, ast.Compare):
            left = self._ev(e.left, d)
            for op, ce in zip(e.ops, e.comparators):
                right = self._ev(ce, d)
                fn = _CMP_OPS.get(type(op))
                if fn is None:
                    raise _OutOfModel('comparison in %s' % short(e, 40))
                if _is_number(left) and _is_number(right):
                    res = fn(left, right)
                elif self._setlike(left) and self._setlike(right):
                    res = fn(self._names(left), self._names(right))
                elif type(left) is _PDict and type(right) is _PDict and isinstance(op, (ast.Eq, ast.NotEq)):
                    self.touched = True
                    res = fn(left.map, right.map)              # dict == dict: names AND values
                else:
                    raise _OutOfModel('comparison of unlike operands in %s' % short(e, 40))
                if not res:
                    return False
                left = right
            return True
        if isinstance(e, ast.Call):
            return self._call(e, d)
        raise _OutOfModel('construct %s' % short(e, 40))

    def _call(self, e: ast.Call, d):
        if e.keywords or any(isinstance(a, ast.Starred) for a in e.args):
            raise _OutOfModel('call %s' % short(e, 40))
        if isinstance(e.func, ast.Name):
            if _assignments(self.f.node, e.func.id):
                raise _OutOfModel('call of a local %s' % e.func.id)
            fn = e.func.id
            if fn in ('frozenset', 'set') and not e.args:
                return frozenset()
            if len(e.args) != 1:
                raise _OutOfModel('call %s' % short(e, 40))
            v = self._ev(e.args[0], d)
            if fn in ('frozenset', 'set'):
                return self._names(v)
            if fn == 'dict' and type(v) is _PDict:
                return v
            if fn == 'len' and not _is_number(v):
                return len(self._names(v))
            if fn == 'bool':
                return self._truth(v)
            if fn == 'int' and isinstance(v, int):
                return int(v)
            if fn == 'abs' and _is_number(v):
                return abs(v)
            raise _OutOfModel('call %s' % short(e, 40))
        if isinstance(e.func, ast.Attribute):
            recv = self._ev(e.func.value, d)
            m = e.func.attr
            if not e.args:
                if m == 'keys' and type(recv) is _PDict:
                    return _PView(recv.names)
                if m == 'items' and type(recv) is _PDict:
                    self.touched = True
                    return _PItems(recv.map)
                if m == 'copy' and (type(recv) is _PDict or isinstance(recv, frozenset)):
                    return recv
                raise _OutOfModel('call %s' % short(e, 40))
            if len(e.args) == 1 and m in _SET_METHODS and (isinstance(recv, frozenset) or (m == 'isdisjoint' and type(recv) in (_PView, _PItems))):
                arg = self._ev(e.args[0], d)
                if _is_number(arg):
                    raise _OutOfModel('call %s' % short(e, 40))
                return _SET_METHODS[m](self._names(recv), self._names(arg))
        raise _OutOfModel('call %s' % short(e, 40))

    # -- locals
    def _chain(self, stmt) -> list:
        out = []
        cur = self.roles.parent.get(id(stmt))
        while cur is not None and cur is not self.f.node:
            out.append(cur)
            cur = self.roles.parent.get(id(cur))
        if cur is None:
            raise _OutOfModel('statement outside the function')
        return out

    def _name(self, e: ast.Name, d):
        name = e.id
        if name in self._busy:
            raise _OutOfModel('%s is defined in terms of itself' % name)
        binds = _assignments(self.f.node, name)
        if not binds:
            raise _OutOfModel('%s is not a local' % name)
        if any(v is None or not isinstance(s, (ast.Assign, ast.AnnAssign)) for s, v in binds):
            raise _OutOfModel('binding of %s' % name)
        self._busy.add(name)
        try:
            chains = [(s, v, self._chain(s)) for s, v in binds]
            if len(chains) == 1 and not chains[0][2]:
                return self._ev(chains[0][1], d)
            tops, defaults = [], []
            for s, v, ch in chains:
                if not ch:
                    defaults.append((s, v))
                elif all(isinstance(c, ast.If) for c in ch):
                    if not any(ch[-1] is t for t in tops):
                        tops.append(ch[-1])
                else:
                    raise _OutOfModel('%s is bound inside %s' % (name, type([c for c in ch if not isinstance(c, ast.If)][0]).__name__))
            if len(tops) != 1 or len(defaults) > 1:
                raise _OutOfModel('bindings of %s are spread over several statements' % name)
            top = tops[0]
            body = self.f.node.body
            box = [_UNSET_VALUE]
            if defaults:
                ds, dv = defaults[0]
                if [i for i, s in enumerate(body) if s is ds][0] > [i for i, s in enumerate(body) if s is top][0]:
                    raise _OutOfModel('%s is re-bound after its if-statement' % name)
                box[0] = self._ev(dv, d)
            self._exec([top], name, box, d)
            if box[0] is _UNSET_VALUE:
                raise _OutOfModel('%s may be unbound' % name)
            return box[0]
        finally:
            self._busy.discard(name)

    def _exec(self, stmts, name, box, d):
        for s in stmts:
            if isinstance(s, ast.If):
                self._exec(s.body if self._truth(self._ev(s.test, d)) else s.orelse, name, box, d)
            elif isinstance(s, ast.Assign) and len(s.targets) == 1 and isinstance(s.targets[0], ast.Name):
                if s.targets[0].id == name:
                    box[0] = self._ev(s.value, d)
            elif isinstance(s, ast.AnnAssign) and isinstance(s.target, ast.Name):
                if s.target.id == name and s.value is not None:
                    box[0] = self._ev(s.value, d)
            elif isinstance(s, ast.Pass) or (isinstance(s, ast.Expr) and isinstance(s.value, ast.Constant)):
                pass
            else:
                raise _OutOfModel('statement %s beside the binding of %s' % (short(s, 40), name))


_UNSET_VALUE = object()


def _subsets(universe):
    out = [frozenset()]
    for x in universe:
        out += [s | {x} for s in out]
    return sorted(out, key=lambda s: (len(s), sorted(s)))


def _show_set(s) -> str:
    return '{%s}' % ', '.join(sorted(s)) if s else '{}'


def _sizes_only(f: Func, other: str, e, depth=0) -> bool:
    """every use of a parameter collection in `e` is the argument of len()"""
    if depth > 12:
        return False
    if isinstance(e, ast.Call) and isinstance(e.func, ast.Name) and e.func.id == 'len' and len(e.args) == 1 and not e.keywords \
            and _params_side(f, e.args[0], other):
        return True
    if _params_side(f, e, other):
        return False
    if isinstance(e, ast.Name):
        binds = _assignments(f.node, e.id)
        if not binds:
            return True
        return all(v is not None and _sizes_only(f, other, v, depth + 1) for _, v in binds)
    return all(_sizes_only(f, other, c, depth + 1) for c in ast.iter_child_nodes(e) if isinstance(c, ast.expr))


def _one_way_inclusion(v) -> bool:
    """the component takes its equal-sets value exactly on the pairs A <= B (or exactly on the pairs A >= B)"""
    if len(v.eq) != 1:
        return False
    hi = v.eq[0]
    return any(all((r[2] == hi) == rel(r[0], r[1]) for r in v.rows) for rel in (frozenset.issubset, frozenset.issuperset))


class _ExactVerdict:
    """What the exact-parameter component evaluates to on the modelled pairs."""

    def __init__(self, rows, unreadable):
        self.rows = rows                       # [(A, B, value)]
        self.unreadable = unreadable
        self.eq = sorted({v for a, b, v in rows if a == b})
        self.ne = sorted({v for a, b, v in rows if a != b})
        self.sig = frozenset((a, b) for a, b, _ in rows)
        self.exact = len(self.eq) == 1 and len(self.ne) == 1 and self.eq != self.ne
        self.whole = self                      # the same expression on ALL pairs of the universe (set by the caller)

    def counterexample(self) -> List[str]:
        def row(a, b, v):
            return 'range parameters %s, media-type parameters %s -> component = %r' % (_show_set(a), _show_set(b), v)
        for a, b, v in self.rows:
            if a != b and v in self.eq:
                a0, b0, _ = [r for r in self.rows if r[0] == r[1] and r[2] == v][0]
                return [row(a0, b0, v) + '  (same names)', row(a, b, v) + '  (different names, same value)']
        for kind, vals in (('same names', self.eq), ('different names', self.ne)):
            if len(vals) > 1:
                rs = [r for r in self.rows if (r[0] == r[1]) == (kind == 'same names')]
                first = rs[0]
                second = [r for r in rs if r[2] != first[2]][0]
                return [row(*first) + '  (%s)' % kind, row(*second) + '  (%s, another value)' % kind]
        return []


# --- literal components of a real score ------------------------------------
#
# A return such as `return (main, sub, 1, 0, self.quality)` states two facts
# about the parameter sets as constants.  They are decided from the branch
# outcomes that dominate the return: every test leaf that speaks about the
# parameters must be one of the enumerated emptiness idioms; the four
# combinations (range parameters empty?, media-type parameters empty?) that
# are consistent with those outcomes are enumerated, and the literal must be
# right in each of them.

_SOURCE_ATTR = ('main_type', 'subtype', 'params', 'params', 'quality')
_COLLECTION_CALLS = ('frozenset', 'set', 'list', 'tuple', 'dict', 'sorted', 'len', 'bool')


def _params_side(f: Func, e, other: str, depth=0) -> Optional[str]:
    """'self' / 'other' when `e` is the parameter mapping of one side, a
    collection built from it, or a local bound once to such a value."""
    if depth > 8:
        return None
    e = _unwrap_cast(e)
    if isinstance(e, ast.Attribute) and e.attr == 'params' and isinstance(e.value, ast.Name):
        if e.value.id == 'self':
            return 'self'
        return 'other' if e.value.id == other else None
    if isinstance(e, ast.Call) and not e.keywords and len(e.args) == 1 and isinstance(e.func, ast.Name) and e.func.id in _COLLECTION_CALLS:
        return _params_side(f, e.args[0], other, depth + 1)
    if isinstance(e, ast.Call) and not e.args and not e.keywords and isinstance(e.func, ast.Attribute) \
            and e.func.attr in ('keys', 'items', 'values', 'copy'):
        return _params_side(f, e.func.value, other, depth + 1)
    if isinstance(e, ast.Name):
        binds = _assignments(f.node, e.id)
        if len(binds) == 1 and binds[0][1] is not None:
            return _params_side(f, binds[0][1], other, depth + 1)
    return None


def _bool_leaves(e):
    if isinstance(e, ast.BoolOp):
        for v in e.values:
            yield from _bool_leaves(v)
    elif isinstance(e, ast.UnaryOp) and isinstance(e.op, ast.Not):
        yield from _bool_leaves(e.operand)
    else:
        yield e


def _mentions_params(roles: _Roles, e) -> bool:
    try:
        return 'params' in roles.features(e, control=False)[0]
    except UnknownIdiom:
        return True


def _emptiness_leaf(roles: _Roles, other: str, leaf) -> Optional[Tuple[str, bool]]:
    """(subject, sense) for the understood emptiness tests: subject is 'self' /
    'other' (one side's parameters), 'xor' (symmetric difference of the names)
    or 'and' (their intersection); the leaf being true means the subject is
    non-empty when `sense`, empty otherwise."""
    def subject(e):
        s = _params_side(roles.f, e, other)
        if s:
            return s
        attrs, ops = roles.features(e, control=False)
        if attrs == {'params'} and not ops - {'xor', 'and', 'len'}:
            if 'xor' in ops and 'and' not in ops:
                return 'xor'
            if 'and' in ops and 'xor' not in ops:
                return 'and'
        return None

    if isinstance(leaf, ast.Compare):
        if len(leaf.ops) != 1:
            return None
        l, r, op = leaf.left, leaf.comparators[0], type(leaf.ops[0])
        if _is_const_num(l) and not _is_const_num(r):
            l, r = r, l
            op = {ast.Lt: ast.Gt, ast.Gt: ast.Lt, ast.LtE: ast.GtE, ast.GtE: ast.LtE}.get(op, op)
        if not (_is_const_num(r, (0, 1)) and isinstance(l, ast.Call) and isinstance(l.func, ast.Name) and l.func.id == 'len'
                and len(l.args) == 1 and not l.keywords):
            return None
        s = subject(l.args[0])
        if s is None:
            return None
        if r.value == 0:
            sense = {ast.Eq: False, ast.LtE: False, ast.NotEq: True, ast.Gt: True}.get(op)
        else:
            sense = {ast.Lt: False, ast.GtE: True}.get(op)
        return None if sense is None else (s, sense)
    s = subject(leaf)
    return (s, True) if s else None


def _eval3(e, leaf_value):
    if isinstance(e, ast.BoolOp):
        vals = [_eval3(v, leaf_value) for v in e.values]
        if isinstance(e.op, ast.And):
            return False if any(v is False for v in vals) else (True if all(v is True for v in vals) else None)
        return True if any(v is True for v in vals) else (False if all(v is False for v in vals) else None)
    if isinstance(e, ast.UnaryOp) and isinstance(e.op, ast.Not):
        v = _eval3(e.operand, leaf_value)
        return None if v is None else (not v)
    return leaf_value(e)


def _xor_empty(se: bool, oe: bool) -> Optional[bool]:
    if se and oe:
        return True
    if se != oe:
        return False
    return None           # both non-empty: depends on the names


def _and_empty(se: bool, oe: bool) -> Optional[bool]:
    return True if (se or oe) else None


def _parameter_cases(cfg, roles: _Roles, other: str, nid: int):
    """-> (feasible (self empty?, other empty?) combinations at node `nid`,
    direct facts {'xor'|'and': 'empty'|'nonempty'}, unreadable test nodes)."""
    guards = []
    for n in cfg.live_nodes():
        if n.kind != 'test' or not _mentions_params(roles, n.ast):
            continue
        for (y, l) in cfg.succ[n.id]:
            if l in ('T', 'F') and flow.dominated_by_edge(cfg, nid, (n.id, y, l)):
                guards.append((n, l == 'T'))
    kinds: Dict[int, Optional[Tuple[str, bool]]] = {}
    unreadable = []
    direct: Dict[str, str] = {}
    for n, truth in guards:
        for leaf in _bool_leaves(n.ast):
            if not _mentions_params(roles, leaf):
                continue
            k = kinds[id(leaf)] = _emptiness_leaf(roles, other, leaf)
            if k is None:
                unreadable.append(n)
                continue
            t = implied(n.ast, truth, lambda e, leaf=leaf: e is leaf)
            if t is not None and k[0] in ('xor', 'and'):
                direct[k[0]] = 'nonempty' if t == k[1] else 'empty'
    feasible = []
    for se in (True, False):
        for oe in (True, False):
            def leaf_value(e, se=se, oe=oe):
                k = kinds.get(id(e))
                if k is None:
                    return None
                subj, sense = k
                empty = {'self': se, 'other': oe, 'xor': _xor_empty(se, oe), 'and': _and_empty(se, oe)}[subj]
                if empty is None:
                    return None
                return (not empty) if sense else empty
            if all(_eval3(n.ast, leaf_value) in (truth, None) for n, truth in guards):
                feasible.append((se, oe))
    return feasible, direct, unreadable


def _describe_cases(feasible) -> str:
    w = {True: 'none', False: 'some'}
    return '; '.join('range has %s / media type has %s' % (w[se], w[oe]) for se, oe in feasible) or 'no consistent case'


def _literal_components(run, ms: Func, cfg, roles: _Roles, other: str, ret: ast.Return, found, exact_vals, lower):
    elts = ret.value.elts
    nids = cfg.nodes_for(ret)
    if not nids:
        raise AnchorError('match_score: score return unreachable')
    encl_attrs: Set[str] = set()
    for i in roles.enclosing_ifs(ret):
        encl_attrs |= roles.features(i.test, control=False)[0]
    cases = None
    for idx, c in enumerate(found):
        if c != 'const':
            continue
        e = elts[idx]
        val = ast.literal_eval(e)
        if idx in (0, 1, 4):
            if _SOURCE_ATTR[idx] in encl_attrs:
                raise UnknownIdiom('match_score: literal component %d of %s under a test of %s' % (idx + 1, short(ret, 80), _SOURCE_ATTR[idx]))
            run.fail('score component %d is the %s, derived from %s - not a literal' % (idx + 1, ROLE_DOC[idx], _SOURCE_ATTR[idx]), ms, ret.value,
                     witness=['component %d = %s in %s' % (idx + 1, short(e, 20), short(ret, 100))],
                     runtime_witness='ranges that differ in criterion %d score the same' % (idx + 1))
            continue
        if cases is None:
            feasible, direct, unreadable = None, {}, []
            for nid in nids:
                f2, d2, u2 = _parameter_cases(cfg, roles, other, nid)
                feasible = f2 if feasible is None else feasible + [c2 for c2 in f2 if c2 not in feasible]
                direct.update(d2)
                unreadable += u2
            cases = (feasible, direct, unreadable)
        feasible, direct, unreadable = cases
        if not feasible:
            raise UnknownIdiom('match_score: the tests guarding %s contradict each other' % short(ret, 80))
        if idx == 2:
            # (two non-empty sets without a common name differ)
            verdicts = {direct['xor'] == 'empty'} if 'xor' in direct else {
                False if (_xor_empty(se, oe) is None and direct.get('and') == 'empty') else _xor_empty(se, oe) for se, oe in feasible}
            what = 'score component 3 is the exact parameter-name match: a literal is right only where the symmetric difference of ' \
                   'both parameter-name sets is decided (cases reaching this return: %s)' % _describe_cases(feasible)
            wit = "Accept: 'text/plain;q=0, text/plain;format=flowed' with media type 'text/plain;format=flowed;charset=utf-8': the bare " \
                  'range claims an exact parameter match and outranks the more specific one'
        else:
            verdicts = {direct['and'] == 'empty'} if 'and' in direct else {_and_empty(se, oe) for se, oe in feasible}
            what = 'score component 4 is the number of shared parameter names: a literal is right only where that number is ' \
                   'decided (cases reaching this return: %s)' % _describe_cases(feasible)
            wit = 'a range sharing parameters with the media type scores like one sharing none'
        if len(verdicts) != 1 or None in verdicts:
            if unreadable:
                raise UnknownIdiom('match_score: test %s guarding %s' % (short(unreadable[0].ast, 60), short(ret, 80)))
            run.fail(what, ms, ret.value, witness=['component %d = %s in %s' % (idx + 1, short(e, 20), short(ret, 100))], runtime_witness=wit)
            continue
        empty = verdicts.pop()
        if idx == 2:
            if not exact_vals:
                raise UnknownIdiom('match_score: no computed exact-parameter component to compare the literal %r with' % (val,))
            want = {b if empty else a for a, b in exact_vals}
        else:
            if not empty:
                raise UnknownIdiom('match_score: literal count of a non-empty intersection in %s' % short(ret, 80))
            want = {0}
        lower(idx, val)
        run.check(val in want and len(want) == 1,
                  'where the %s is known to be %s the literal score component %d has the value the computed component takes (%s)' % (
                      'symmetric difference of the parameter names' if idx == 2 else 'intersection of the parameter names',
                      'empty' if empty else 'non-empty', idx + 1, '/'.join(repr(w) for w in sorted(want))),
                  ms, ret.value, witness=['component %d = %r' % (idx + 1, val)], runtime_witness=wit)


def _is_real_score(e) -> bool:
    """a tuple display with at least one computed component (the sentinel is a constant or an all-literal tuple)"""
    return isinstance(e, ast.Tuple) and not all(_is_num_literal(x) for x in e.elts)


def _score_returns(ms: Func) -> Tuple[List[ast.Return], List[ast.Return]]:
    """(returns of a real score, not-matching returns) of match_score"""
    real, sentinels = [], []
    for r in _returns(ms):
        if r.value is None:
            raise UnknownIdiom('match_score: bare return')
        if _is_real_score(r.value):
            real.append(r)
        else:
            sentinels.append(r)
    if not real:
        raise AnchorError('match_score: no return of a score tuple found')
    return real, sentinels


# --- the type / subtype part of match_score, decided on a finite domain ------
#
# Whether the range and the candidate agree in main type / subtype, and what
# the two leading score components are, is a function of four strings only.
# However the source spells it (if/elif ladders, early returns, membership
# tests over tuple displays, conditional expressions), match_score() is
# INTERPRETED here - by the enumerated statement/expression language below,
# never by running falcon code - for every combination of
#     self.main_type, <candidate>.main_type, self.subtype, <candidate>.subtype
# over {'*', 'a', 'b'} (two distinct concrete tokens and the wildcard: every
# comparison the language admits is decided by equality of the atoms, so this
# domain shows every behaviour).  Everything else (parameters, q) evaluates to
# one opaque value; a branch decided by it is explored both ways.  REQUIRED:
#   * both sides concrete and different (in either position) -> every path
#     returns the not-matching sentinel;
#   * otherwise (a wildcard on EITHER side, or equal tokens) no sentinel return
#     is decided by the type: a sentinel is only reached behind a branch on the
#     opaque part (parameter mismatch);
#   * the component of a real score is smaller in every wildcard cell than in
#     every exact cell.
# A cell that differs is a violation naming the cell; anything outside the
# language is an unknown idiom.

_T_ATOMS = ('*', 'a', 'b')
_T_ATTRS = ('main_type', 'subtype')
_TOP = type('_Top', (), {'__repr__': lambda self: '<opaque>'})()
_TYPE_WITNESS = "quality('text/*', 'text/html') is 0.0 instead of 1.0; a handler registered as 'text/*' no longer resolves " \
                "Content-Type 'text/csv' (415, or a lower-ranked handler)"


def _compatible(x: str, y: str) -> bool:
    return x == '*' or y == '*' or x == y


def _cell_text(cell) -> str:
    sm, om, ss, os_ = cell
    return 'range %s/%s, candidate %s/%s' % (sm, ss, om, os_)


class _TState:
    __slots__ = ('env', 'last', 'tests', 'status')

    def __init__(self, env, last=None, tests=(), status='run'):
        self.env = env            # local name -> value
        self.last = last          # the decision this point is control-dependent on: ('top'|'conc', test expr, outcome) | None
        self.tests = tests        # concretely decided tests on the path, in order
        self.status = status      # 'run' | 'break' | 'continue'

    def fork(self, **kw):
        s = _TState(self.env, self.last, self.tests, self.status)
        for k, v in kw.items():
            setattr(s, k, v)
        return s


class _TOutcome:
    __slots__ = ('ret', 'kind', 'env', 'last', 'tests', 'cell')

    def __init__(self, ret, kind, st: _TState, cell):
        self.ret, self.kind, self.env, self.last, self.tests, self.cell = ret, kind, st.env, st.last, st.tests, cell


def _always_returns(stmts) -> bool:
    if not stmts:
        return False
    s = stmts[-1]
    if isinstance(s, (ast.Return, ast.Raise)):
        return True
    if isinstance(s, ast.If):
        return _always_returns(s.body) and _always_returns(s.orelse)
    return False


class _TypeModel:
    """Interpreter of match_score() over the four type strings.

    statements: if/elif/else; assignments (plain, annotated, augmented, tuple
    unpacking of a tuple display) to locals; return; for/while over the opaque
    part (body explored zero times and once, the names it binds are opaque
    afterwards); break/continue/pass; expression statements.
    expressions: constants; the four attributes; locals; tuple/list/set
    displays; == != in / not in (over displays) is / is not < <= > >=;
    and/or/not; conditional expressions; + - * on numbers; int()/bool();
    constant subscripts of displays.  Any other expression is opaque when it
    does not read the type (directly or through a local) and outside the
    language when it does."""

    MAX_STATES = 256

    def __init__(self, roles: _Roles, other: str, project=None):
        self.roles = roles
        self.f = roles.f
        self.other = other
        self.p = project
        self._memo: Dict[int, bool] = {}
        self.cell = {}
        self.out: List[_TOutcome] = []

    # -- helpers
    def reads_type(self, e) -> bool:
        k = id(e)
        if k not in self._memo:
            try:
                attrs = self.roles.features(e, control=False)[0]
            except UnknownIdiom as why:
                raise _OutOfModel(str(why))
            self._memo[k] = bool(attrs & set(_T_ATTRS))
        return self._memo[k]

    def _opaque(self, e):
        if self.reads_type(e):
            raise _OutOfModel('%s reads the type in a way outside the modelled language' % short(e, 60))
        return _TOP

    @staticmethod
    def _truth(v) -> Optional[bool]:
        if v is _TOP:
            return None
        if isinstance(v, tuple):
            return len(v) > 0
        return bool(v)

    def _eq3(self, l, r) -> Optional[bool]:
        if l is _TOP or r is _TOP:
            return None
        if isinstance(l, tuple) and isinstance(r, tuple):
            if len(l) != len(r):
                return False
            res = True
            for a, b in zip(l, r):
                t = self._eq3(a, b)
                if t is False:
                    return False
                if t is None:
                    res = None
            return res
        if isinstance(l, tuple) or isinstance(r, tuple):
            return False
        return l == r

    def _cmp(self, op, l, r, e) -> Optional[bool]:
        if isinstance(op, (ast.Eq, ast.NotEq)):
            t = self._eq3(l, r)
            return t if t is None or isinstance(op, ast.Eq) else (not t)
        if isinstance(op, (ast.In, ast.NotIn)):
            if r is _TOP:
                return None
            if not isinstance(r, tuple):
                raise _OutOfModel('membership test in something that is not a display: %s' % short(e, 60))
            ts = [self._eq3(l, x) for x in r]
            t = True if any(x is True for x in ts) else (None if any(x is None for x in ts) else False)
            return t if t is None or isinstance(op, ast.In) else (not t)
        if isinstance(op, (ast.Is, ast.IsNot)):
            if l is _TOP or r is _TOP:
                return None
            if not all(x is None or isinstance(x, bool) for x in (l, r)) and not (l is None or r is None):
                raise _OutOfModel('identity test %s' % short(e, 60))
            t = l is r
            return t if isinstance(op, ast.Is) else (not t)
        fn = _CMP_OPS.get(type(op))
        if fn is None:
            raise _OutOfModel('comparison in %s' % short(e, 60))
        if l is _TOP or r is _TOP:
            return None
        if _is_number(l) and _is_number(r):
            return fn(l, r)
        raise _OutOfModel('ordering of non-numbers in %s' % short(e, 60))

    # -- expressions
    def ev(self, e, env, depth=0):
        if depth > 40:
            raise _OutOfModel('expression too deep')
        e = _unwrap_cast(e)
        d = depth + 1
        if isinstance(e, ast.Constant):
            if e.value is None or isinstance(e.value, (str, int, float, bool)):
                return e.value
            return _TOP
        if isinstance(e, ast.Attribute):
            if e.attr in _T_ATTRS and isinstance(e.value, ast.Name) and e.value.id in ('self', self.other):
                return self.cell[(e.value.id == 'self', e.attr)]
            v = _module_literal(self.p, self.f, e)
            return v if v is not UNKNOWN else self._opaque(e)
        if isinstance(e, ast.Name):
            if e.id in env:
                return env[e.id]
            v = _module_literal(self.p, self.f, e)         # _WILDCARD = '*' at module level is '*'
            return v if v is not UNKNOWN else self._opaque(e)
        if isinstance(e, (ast.Tuple, ast.List, ast.Set)):
            if any(isinstance(x, ast.Starred) for x in e.elts):
                return self._opaque(e)
            return tuple(self.ev(x, env, d) for x in e.elts)
        if isinstance(e, ast.Compare):
            left = self.ev(e.left, env, d)
            res: Optional[bool] = True
            for op, ce in zip(e.ops, e.comparators):
                right = self.ev(ce, env, d)
                t = self._cmp(op, left, right, e)
                if t is False:
                    return False
                if t is None:
                    res = None
                left = right
            return _TOP if res is None else True
        if isinstance(e, ast.BoolOp):
            is_and = isinstance(e.op, ast.And)
            opaque = False
            v = None
            for x in e.values:
                v = self.ev(x, env, d)
                t = self._truth(v)
                if t is None:
                    opaque = True
                elif t != is_and:
                    return (not is_and) if opaque else v       # decided whatever the opaque operands are
            return _TOP if opaque else v
        if isinstance(e, ast.UnaryOp):
            v = self.ev(e.operand, env, d)
            if isinstance(e.op, ast.Not):
                t = self._truth(v)
                return _TOP if t is None else (not t)
            if v is _TOP:
                return _TOP
            if isinstance(e.op, (ast.USub, ast.UAdd)) and _is_number(v):
                return -v if isinstance(e.op, ast.USub) else +v
            raise _OutOfModel('operator in %s' % short(e, 60))
        if isinstance(e, ast.IfExp):
            t = self._truth(self.ev(e.test, env, d))
            if t is not None:
                return self.ev(e.body if t else e.orelse, env, d)
            a, b = self.ev(e.body, env, d), self.ev(e.orelse, env, d)
            return a if (a is not _TOP and b is not _TOP and type(a) is type(b) and a == b) else _TOP
        if isinstance(e, ast.BinOp):
            l, r = self.ev(e.left, env, d), self.ev(e.right, env, d)
            if _is_number(l) and _is_number(r) and isinstance(e.op, (ast.Add, ast.Sub, ast.Mult)):
                return l + r if isinstance(e.op, ast.Add) else (l - r if isinstance(e.op, ast.Sub) else l * r)
            if (l is _TOP or _is_number(l)) and (r is _TOP or _is_number(r)):
                return _TOP
            return self._opaque_strict(e)
        if isinstance(e, ast.Subscript):
            v = self.ev(e.value, env, d) if isinstance(e.value, (ast.Tuple, ast.List, ast.Name)) else _TOP
            if isinstance(v, tuple) and isinstance(e.slice, ast.Constant) and isinstance(e.slice.value, int) \
                    and -len(v) <= e.slice.value < len(v):
                return v[e.slice.value]
            return self._opaque(e)
        if isinstance(e, ast.Call):
            if isinstance(e.func, ast.Name) and e.func.id in ('int', 'bool') and e.func.id not in env and len(e.args) == 1 \
                    and not e.keywords and not isinstance(e.args[0], ast.Starred):
                v = self.ev(e.args[0], env, d)
                if v is _TOP:
                    return _TOP
                if e.func.id == 'bool':
                    return self._truth(v)
                if _is_number(v):
                    return int(v)
                raise _OutOfModel('call %s' % short(e, 60))
            return self._opaque(e)
        if isinstance(e, ast.NamedExpr) and isinstance(e.target, ast.Name):
            v = self.ev(e.value, env, d)
            env[e.target.id] = v
            return v
        return self._opaque(e)

    def _opaque_strict(self, e):
        """an operator applied to strings / displays of the domain: never opaque"""
        raise _OutOfModel('operator applied to a type token in %s' % short(e, 60))

    # -- statements
    def outcomes(self, cell) -> List[_TOutcome]:
        sm, om, ss, os_ = cell
        self.cell = {(True, 'main_type'): sm, (False, 'main_type'): om, (True, 'subtype'): ss, (False, 'subtype'): os_}
        self.out = []
        end = self._block(self.f.node.body, [_TState({})])
        if end:
            raise _OutOfModel('a path leaves match_score without a return')
        return self.out

    def _block(self, stmts, states: List[_TState]) -> List[_TState]:
        for s in stmts:
            nxt: List[_TState] = []
            for x in states:
                if x.status != 'run':
                    nxt.append(x)
                else:
                    nxt += self._stmt(s, x)
            states = nxt
            if len(states) > self.MAX_STATES:
                raise _OutOfModel('too many paths')
        return states

    def _bind(self, target, value, vexpr, env):
        if isinstance(target, ast.Name):
            env[target.id] = value
        elif isinstance(target, (ast.Tuple, ast.List)) and not any(isinstance(t, ast.Starred) for t in target.elts):
            if isinstance(value, tuple) and len(value) == len(target.elts):
                for t, v in zip(target.elts, value):
                    self._bind(t, v, vexpr, env)
            elif value is _TOP:
                for t in target.elts:
                    self._bind(t, _TOP, vexpr, env)
            else:
                raise _OutOfModel('unpacking of %s' % short(vexpr, 60))
        elif value is not _TOP or self.reads_type(vexpr):
            raise _OutOfModel('a value derived from the type is stored in %s' % short(target, 40))

    def _stmt(self, s, x: _TState) -> List[_TState]:
        if isinstance(s, ast.If):
            t = self._truth(self.ev(s.test, x.env))
            dep = _always_returns(s.body) != _always_returns(s.orelse)
            outs: List[_TState] = []
            for truth in ((True, False) if t is None else (t,)):
                dec = ('top' if t is None else 'conc', s.test, truth)
                y = x.fork(env=dict(x.env), last=dec, tests=x.tests if t is None else x.tests + ((s.test, truth),))
                outs += self._block(s.body if truth else s.orelse, [y])
            if not dep:
                outs = [o.fork(last=x.last) for o in outs]
            return outs
        if isinstance(s, (ast.Assign, ast.AnnAssign)):
            if s.value is None:
                return [x]
            env = dict(x.env)
            v = self.ev(s.value, env)
            for t in (s.targets if isinstance(s, ast.Assign) else [s.target]):
                self._bind(t, v, s.value, env)
            return [x.fork(env=env)]
        if isinstance(s, ast.AugAssign):
            env = dict(x.env)
            v = self.ev(ast.BinOp(left=ast.Name(id=s.target.id, ctx=ast.Load()), op=s.op, right=s.value), env) \
                if isinstance(s.target, ast.Name) else _TOP
            self._bind(s.target, v, s.value, env)
            return [x.fork(env=env)]
        if isinstance(s, ast.Return):
            if s.value is None:
                raise _OutOfModel('bare return')
            self.out.append(_TOutcome(s, 'score' if _is_real_score(s.value) else 'sentinel', x, dict(self.cell)))
            return []
        if isinstance(s, (ast.For, ast.While)):
            if isinstance(s, ast.For):
                if self.ev(s.iter, dict(x.env)) is not _TOP:
                    raise _OutOfModel('loop over a sequence built from the type: %s' % short(s.iter, 60))
                head = s.iter
            else:
                if self._truth(self.ev(s.test, dict(x.env))) is not None:
                    raise _OutOfModel('loop condition decided by the type: %s' % short(s.test, 60))
                head = s.test
            bound = {n.id for n in ast.walk(s) if isinstance(n, ast.Name) and isinstance(n.ctx, ast.Store)}
            env = dict(x.env)
            for n in bound:
                env[n] = _TOP
            n_before = len(self.out)
            body = self._block(s.body, [x.fork(env=env, last=('top', head, True))])
            returned = len(self.out) > n_before
            after_last = ('top', head, False) if returned else x.last
            done = [x.fork(env=dict(x.env))] + [b.fork(status='run') for b in body if b.status != 'break']
            broke = [b.fork(status='run') for b in body if b.status == 'break']
            return [o.fork(last=after_last) for o in self._block(s.orelse, done) + broke]
        if isinstance(s, ast.Break):
            return [x.fork(status='break')]
        if isinstance(s, ast.Continue):
            return [x.fork(status='continue')]
        if isinstance(s, ast.Pass):
            return [x]
        if isinstance(s, ast.Expr):
            if not isinstance(s.value, ast.Constant):
                self.ev(s.value, dict(x.env))
            return [x]
        raise _OutOfModel('%s statement' % type(s).__name__.lower())


def _type_table(run, ms: Func, roles: _Roles, other: str, comp_with_role, lower):
    """R1 (b)/(d) for the two leading criteria: the REQUIRED table above, cell by cell."""
    tm = _TypeModel(roles, other, run.project)
    cells = [(sm, om, ss, os_) for sm in _T_ATOMS for om in _T_ATOMS for ss in _T_ATOMS for os_ in _T_ATOMS]
    try:
        table = {c: tm.outcomes(c) for c in cells}
    except _OutOfModel as why:
        raise UnknownIdiom('match_score: the type / subtype part cannot be evaluated (%s)' % why)
    if not any(o.kind == 'score' for outs in table.values() for o in outs):
        raise AnchorError('match_score: no combination of types reaches a real score')

    def comp_value(o: _TOutcome, role: int):
        e = comp_with_role(o.ret, role)
        if e is None:
            return None
        try:
            tm.cell = o.cell                # the component is read in the combination this return was reached in
            v = tm.ev(e, dict(o.env))
        except _OutOfModel as why:
            raise UnknownIdiom('match_score: %s component %s (%s)' % (ROLE_DOC[role], short(e, 40), why))
        if v is _TOP or not _is_number(v):
            raise UnknownIdiom('match_score: %s component %s is not decided by the types (%r)' % (ROLE_DOC[role], short(e, 40), v))
        return v

    def blame(o: _TOutcome, attr: Optional[str]):
        """the concretely decided test that sent the path here: the decision the return is control-dependent on, else the
        last decided test on the path that reads this criterion's attribute, else the return itself"""
        if o.kind == 'sentinel' and o.last is not None and o.last[0] == 'conc':
            return o.last[1]
        for t, _ in reversed(o.tests):
            if attr is None or any(isinstance(n, ast.Attribute) and n.attr == attr for n in ast.walk(t)):
                return t
        return o.ret

    def type_decided(o: _TOutcome) -> bool:
        """a not-matching return that no branch on the opaque part (parameters) stands in front of"""
        if o.last is None or o.last[0] == 'conc':
            return True
        if tm.reads_type(o.last[1]):
            raise UnknownIdiom('match_score: %s is decided by the type and by the parameters together in %s' % (
                short(o.ret, 40), short(o.last[1], 60)))
        return False

    reported: Set[str] = set()          # constructs already blamed (a violation's identity is the construct, not the clause)

    def verdict(kind: str, what: str, pick, attr: Optional[str], wit: str):
        """one obligation per (clause, construct): `pick` lists the (cell, outcome) pairs that break the clause"""
        bad = pick()
        by_construct: Dict[str, list] = {}
        nodes = {}
        for c, o in bad:
            n = blame(o, attr)
            by_construct.setdefault(unparse(n), []).append((c, o))
            nodes[unparse(n)] = n
        fresh = [k for k in sorted(by_construct) if k not in reported]
        if not bad:
            run.ok(what, ms.loc())
        for k in fresh:
            reported.add(k)
            rows = by_construct[k]
            run.fail(what, ms, nodes[k], where=ms.loc(nodes[k]),
                     witness=['%s -> %s' % (_cell_text(c), 'not matching' if o.kind == 'sentinel' else 'a real score at %s' % short(o.ret, 60))
                              for c, o in rows[:6]], runtime_witness=wit)

    for role, attr in enumerate(_T_ATTRS):
        name = 'main type' if role == 0 else 'subtype'

        def cell_of(s, o, role=role):
            # the other criterion is held compatible: wildcards when the main type is examined, an equal token otherwise
            return (s, o, '*', '*') if role == 0 else ('a', 'a', s, o)

        pairs = [(s, o) for s in _T_ATOMS for o in _T_ATOMS]
        verdict('mismatch-%d' % role,
                'a %s mismatch (both sides concrete and different) yields the not-matching sentinel on every path' % name,
                lambda: [(cell_of(s, o), x) for s, o in pairs if not _compatible(s, o) for x in table[cell_of(s, o)] if x.kind == 'score'],
                attr, 'a range with a different %s still matches' % name)
        verdict('compatible-%d' % role,
                'a %s wildcard on EITHER side (range or candidate) or an equal %s is never answered "not matching" because of the %s'
                % (name, name, name),
                lambda: [(cell_of(s, o), x) for s, o in pairs if _compatible(s, o) for x in table[cell_of(s, o)]
                         if x.kind == 'sentinel' and type_decided(x)],
                attr, _TYPE_WITNESS)
        for s, o in pairs:
            if _compatible(s, o) and not any(x.kind == 'score' for x in table[cell_of(s, o)]) \
                    and not any(x.kind == 'sentinel' and type_decided(x) for x in table[cell_of(s, o)]):
                raise UnknownIdiom('match_score: %s never reaches a real score' % _cell_text(cell_of(s, o)))
        # polarity of the component over ALL cells that reach a real score
        wild: Dict[float, tuple] = {}
        exact: Dict[float, tuple] = {}
        for c in cells:
            pair = (c[0], c[1]) if role == 0 else (c[2], c[3])
            for x in table[c]:
                if x.kind != 'score':
                    continue
                v = comp_value(x, role)
                if v is not None:
                    (wild if '*' in pair else exact).setdefault(v, c)
        if wild and exact:
            lower(role, min(list(wild) + list(exact)))
            w, e = max(wild), min(exact)
            holder = [n for n in (comp_with_role(x.ret, role) for outs in table.values() for x in outs if x.kind == 'score') if n is not None][0]
            first = _assignments(ms.node, holder.id)[0][0] if isinstance(holder, ast.Name) and _assignments(ms.node, holder.id) else holder
            run.check(w < e, 'an exact %s scores above a wildcard match' % name, ms,
                      '%s: wildcard %s exact %s' % (short(holder, 30), sorted(wild), sorted(exact)), where=ms.loc(first),
                      witness=['%s -> component %r' % (_cell_text(wild[w]), w), '%s -> component %r' % (_cell_text(exact[e]), e)],
                      runtime_witness='text/* preferred over text/plain for media type text/plain')
        elif wild or exact:
            raise UnknownIdiom('match_score: the %s component is computed only for %s cells' % (name, 'wildcard' if wild else 'exact'))

    # every remaining combination of the two criteria
    verdict('joint', 'all %d combinations of range / candidate main type and subtype over %s: not matching exactly when a criterion has two '
            'different concrete tokens' % (len(cells), '/'.join(_T_ATOMS)),
            lambda: [(c, x) for c in cells if not (_compatible(c[0], c[1]) and _compatible(c[2], c[3])) for x in table[c] if x.kind == 'score'] +
                    [(c, x) for c in cells if _compatible(c[0], c[1]) and _compatible(c[2], c[3]) for x in table[c]
                     if x.kind == 'sentinel' and type_decided(x)],
            None, _TYPE_WITNESS)
    run.extra['c11_type_model'] = {'cells': len(cells), 'outcomes': sum(len(v) for v in table.values())}


def r1_score_order(run):
    p = run.project
    ms = p.func(MEDIATYPES + '._MediaRange.match_score')
    cls = p.cls(MEDIATYPES + '._MediaRange')
    cfg = cfg_of(ms, p)
    run.use_cfg(cfg)
    roles = _Roles(ms)
    params = _param_names(ms)
    if len(params) != 1:
        raise UnknownIdiom('match_score takes %d parameters' % len(params))
    other = params[0]

    real, sentinels = _score_returns(ms)
    for r in real:
        if len(r.value.elts) != 5:
            raise UnknownIdiom('match_score returns a %d-tuple' % len(r.value.elts))

    model = _ParamModel(roles, other)
    subsets = _subsets(_MODEL_UNIVERSE)
    verdicts: Dict[Tuple[int, str], _ExactVerdict] = {}

    def exact_verdict(ret, e) -> _ExactVerdict:
        """the component `e` of `ret` on every pair of name sets consistent with the tests that dominate `ret`"""
        key = (id(ret), unparse(e))
        if key not in verdicts:
            feasible, direct, unreadable = [], {}, []
            for nid in cfg.nodes_for(ret):
                f2, d2, u2 = _parameter_cases(cfg, roles, other, nid)
                feasible += [c for c in f2 if c not in feasible]
                direct.update(d2)
                unreadable += u2
            rows, n_pairs = [], 0
            for A in subsets:
                for B in subsets:
                    if (not A, not B) not in feasible:
                        continue
                    if direct.get('xor') and (direct['xor'] == 'empty') != (A == B):
                        continue
                    if direct.get('and') and (direct['and'] == 'empty') != (not A & B):
                        continue
                    n_pairs += 1
                    rows += values_on(e, A, B)
            verdicts[key] = v = _ExactVerdict(rows, unreadable)
            v.whole = v if n_pairs == len(subsets) ** 2 else _ExactVerdict([r for A in subsets for B in subsets for r in values_on(e, A, B)], [])
        return verdicts[key]

    def values_on(e, A, B):
        """the rows (A, B, value) of `e` on one pair of name sets: one row when the expression reads the names only;
        otherwise one per distinct value over the assignments of two values to the names that agree on the shared names"""
        first = model.value(e, A, B)
        if not model.touched:
            return [(A, B, first)]
        names = sorted(A | B)
        seen, out = {first}, [(A, B, first)]
        for k in range(1, 2 ** len(names)):
            val = {n: 1 + ((k >> i) & 1) for i, n in enumerate(names)}
            x = model.value(e, A, B, val, val)
            if x not in seen:
                seen.add(x)
                out.append((A, B, x))
        return out

    # (a) components by role, on EVERY return of a real score.  A component is
    #     either derived (def-use) from its documented source, or it is a
    #     literal; literals are decided in (b2) from the branch outcomes that
    #     dominate the return.
    comps: Dict[int, List[object]] = {}
    for ret in real:
        elts = ret.value.elts
        found: List[object] = []
        for i, e in enumerate(elts):
            if _is_num_literal(e):
                found.append('const')
                continue
            attrs, ops = roles.features(e)
            role = _role_of(attrs, ops)
            if attrs == {'params'}:
                # whatever the spelling, decide on the model whether this IS the exact-parameter criterion; in that
                # criterion's own position a modelled expression that is not is a look-alike, reported in (b)
                try:
                    v = exact_verdict(ret, e)
                    if v.exact or v.whole.exact or (role is None and i == 2):
                        role = 2
                except _OutOfModel as why:
                    if role is None:
                        raise UnknownIdiom('match_score: component %d (%s) depends on %s via %s - no known role (%s)' % (
                            i + 1, short(e, 40), sorted(attrs), sorted(ops), why))
            if role is None:
                raise UnknownIdiom('match_score: component %d (%s) depends on %s via %s - no known role' % (
                    i + 1, short(e, 40), sorted(attrs), sorted(ops)))
            found.append(role)
            run.check(role == i, 'score component %d is the %s' % (i + 1, ROLE_DOC[i]), ms, ret.value,
                      witness=['component %d = %s depends on %s %s -> %s' % (i + 1, short(e, 40), sorted(attrs), sorted(ops), ROLE_DOC[role])],
                      runtime_witness='two ranges that differ in criteria %d and %d are ranked in the wrong order' % (min(i, role) + 1, max(i, role) + 1))
        if 'const' not in found and sorted(found) != [0, 1, 2, 3, 4]:
            raise UnknownIdiom('match_score: roles %s do not cover the five criteria' % found)
        comps[id(ret)] = found

    def comp_with_role(ret, role):
        found, elts = comps[id(ret)], ret.value.elts
        if found[role] == role:
            return elts[role]
        for i, c in enumerate(found):
            if c == role:
                return elts[i]
        return None

    # (b) polarity: exact beats wildcard, exact parameter set beats extraneous, more matching params beat fewer
    mins: Dict[int, float] = {}
    done: Set[Tuple[int, str]] = set()
    exact_vals: Set[Tuple[float, float]] = set()   # (value when the symmetric difference is non-empty, value when it is empty)

    def lower(role, v):
        mins[role] = v if role not in mins else min(mins[role], v)

    # main type / subtype: which pairs match at all and how the two leading components rank them is decided by
    # interpreting match_score() on the finite type domain (replaces the former shape-bound reading of the if-ladders)
    _type_table(run, ms, roles, other, comp_with_role, lower)

    for ret in real:
        e = comp_with_role(ret, 2)
        if e is not None:
            try:
                v = exact_verdict(ret, e)
            except _OutOfModel as why:
                raise UnknownIdiom('match_score: exact-parameter component %s (%s)' % (short(_expand_name(ms, e), 60), why))
            if (2, unparse(e), v.sig) not in done:
                done.add((2, unparse(e), v.sig))
                e2 = _expand_name(ms, e)
                if not v.rows:
                    raise UnknownIdiom('match_score: the tests guarding %s contradict each other' % short(ret, 80))
                lower(2, min(v.eq + v.ne))
                # right on every pair of name sets that can reach this return (v); the two values come from there or,
                # when the guards leave only one kind of pair, from the definition taken on all pairs (v.whole)
                if len(v.eq) <= 1 and len(v.ne) <= 1 and v.eq != v.ne:
                    src = v if v.exact else (v.whole if v.whole.exact else None)
                    if src is not None:
                        a, b = src.ne[0], src.eq[0]
                        exact_vals.add((a, b))
                        run.check(a < b, 'an empty symmetric difference of parameter names scores above a non-empty one', ms, e2,
                                  runtime_witness='a range with extraneous parameters outranks the exactly matching range')
                else:
                    if v.unreadable:
                        raise UnknownIdiom('match_score: test %s guarding %s' % (short(v.unreadable[0].ast, 60), short(ret, 80)))
                    family = 'sizes' if _sizes_only(ms, other, e) else ('inclusion' if _one_way_inclusion(v.whole) else 'other')
                    run.fail('score component 3 is the exact parameter-name match - one value when both parameter-name sets are equal, '
                             'a smaller one otherwise: %s' % EXACT_LOOKALIKES[family], ms, e2, where=ms.loc(e2),
                             witness=v.counterexample() + ['returned as component %d of %s' % (
                                 [i for i, x in enumerate(ret.value.elts) if x is e][0] + 1, short(ret, 100))],
                             runtime_witness="media type 'text/html; charset=utf-8' against Accept 'text/html;level=1;q=0.1, text/html;q=0.9': "
                                             'the range with a different parameter counts as an exact parameter match and decides the '
                                             'quality (0.1 instead of 0.9)')
        e3 = comp_with_role(ret, 3)
        if e3 is not None and (3, unparse(e3)) not in done:
            done.add((3, unparse(e3)))
            e3 = _expand_name(ms, e3)
            neg = isinstance(e3, ast.UnaryOp) and isinstance(e3.op, ast.USub)
            core = _expand_name(ms, e3.operand) if neg else e3
            if not (isinstance(core, ast.Call) and isinstance(core.func, ast.Name) and core.func.id == 'len' and len(core.args) == 1):
                raise UnknownIdiom('match_score: matching-parameter count %s' % short(e3, 60))
            lower(3, 0)
            run.check(not neg, 'the score grows with the number of matching parameters', ms, e3)
        e4 = comp_with_role(ret, 4)
        if e4 is not None and (4, unparse(e4)) not in done:
            done.add((4, unparse(e4)))
            run.check(is_self_attr(_expand_name(ms, e4), 'quality'), 'the last component is the q of this range itself', ms, e4)
    if not all(r in mins for r in range(4)):
        raise UnknownIdiom('match_score: no return derives all of the first four criteria from their sources (%s)' % sorted(mins))

    # (b2) literal components of a real score
    for ret in real:
        if 'const' in comps[id(ret)]:
            _literal_components(run, ms, cfg, roles, other, ret, comps[id(ret)], exact_vals, lower)

    # (c) sentinel
    if not sentinels:
        raise AnchorError('match_score: no not-matching return found')
    sent_vals = set()
    for r in sentinels:
        v = p.fold(ms.module, r.value, cls, ms)
        if v is UNKNOWN or not (isinstance(v, tuple) and len(v) == 5 and all(isinstance(x, (int, float)) for x in v)):
            raise UnknownIdiom('match_score: return %s does not fold to a numeric 5-tuple' % short(r.value, 60))
        sent_vals.add((v, unparse(r.value)))
    for v, txt in sorted(sent_vals, key=lambda x: x[1]):
        below = tuple(v[:4]) <= tuple(mins[i] for i in range(4))
        run.check(below, 'the not-matching sentinel does not outrank any real score (lexicographically <= the least real score)', ms,
                  '%s = %r' % (txt, v), runtime_witness='a non-matching range outranks a matching wildcard range')
        run.check(v[4] == 0 and isinstance(v[4], (int, float)), 'the not-matching sentinel carries quality 0.0', ms, '%s = %r' % (txt, v),
                  runtime_witness='quality() of a non-matching media type is non-zero')

    # (d) mismatch edges never reach the real score
    real_nodes = [nid for ret in real for nid in cfg.nodes_for(ret)]
    if not real_nodes:
        raise AnchorError('match_score: score return unreachable')

    def cmp_atom(kind):
        def is_side(e, base):
            if kind == 'params':
                # `X.params[name]`, or the same through a local bound once to the mapping (`mr_params = self.params`)
                return isinstance(e, ast.Subscript) and _params_side(ms, e.value, other) == ('self' if base == 'self' else 'other')
            return isinstance(e, ast.Attribute) and e.attr == kind and isinstance(e.value, ast.Name) and e.value.id == base

        def atom(e):
            if isinstance(e, ast.Compare) and len(e.ops) == 1 and isinstance(e.ops[0], (ast.Eq, ast.NotEq)):
                l, r = e.left, e.comparators[0]
                return (is_side(l, 'self') and is_side(r, other)) or (is_side(l, other) and is_side(r, 'self'))
            return False
        return atom

    def once_bound(name: ast.AST):
        """the value of a local that is bound exactly once, by a plain assignment (reading ability 1)"""
        if isinstance(name, ast.Name) and isinstance(name.ctx, ast.Load):
            binds = _assignments(ms.node, name.id)
            if len(binds) == 1 and binds[0][1] is not None and name.id not in _param_names(ms, skip_self=False):
                return binds[0][1]
        return None

    def quantified(e):
        """any(<comprehension>) / all(<comprehension>) over one element expression -> ('any'|'all', comprehension)"""
        if isinstance(e, ast.Call) and isinstance(e.func, ast.Name) and e.func.id in ('any', 'all') and len(e.args) == 1 and not e.keywords \
                and isinstance(e.args[0], (ast.GeneratorExp, ast.ListComp, ast.SetComp)) and p.resolve_callable(ms, e.func) == 'builtins.' + e.func.id:
            return e.func.id, e.args[0]
        return None

    def for_some_element(expr, truth: bool, a, depth=0) -> Optional[bool]:
        """`expr` came out `truth`: the truth the comparison `a` has for this evaluation or - when it sits inside a
        quantifier - for AT LEAST ONE element:  any(E for ..) true -> E true for some element;  all(E for ..) false ->
        E false for some element;  a filtered list / set comprehension that is truthy -> its filters true for some
        element;  a local bound once to one of those is that expression.  `any` false / `all` true speak about every
        element (possibly none): no witness, None.  This reads `if any(x != y for n in names): return S` as the loop
        `for n in names: if x != y: return S` it replaces."""
        r = implied(expr, truth, lambda e: e is a)
        if r is not None or depth > 3:
            return r
        for sub in walk_self(expr):
            if sub is expr and not (isinstance(sub, (ast.Name, ast.Call, ast.ListComp, ast.SetComp))):
                continue
            q, bound = quantified(sub), once_bound(sub)
            comp = sub if isinstance(sub, (ast.ListComp, ast.SetComp)) else None
            if q is None and bound is None and comp is None:
                continue
            ts = implied(expr, truth, lambda e, sub=sub: e is sub)
            if ts is None:
                continue
            if bound is not None:
                r = for_some_element(bound, ts, a, depth + 1)
            elif q is not None:
                how, c = q
                r = None
                if (how == 'any') == ts:
                    r = for_some_element(c.elt, ts, a, depth + 1)
                    if r is None:
                        for g in c.generators:
                            for cond in g.ifs:
                                r = for_some_element(cond, True, a, depth + 1) if r is None else r
            else:
                r = None
                if ts:
                    for g in comp.generators:
                        for cond in g.ifs:
                            r = for_some_element(cond, True, a, depth + 1) if r is None else r
            if r is not None:
                return r
        return None

    for kind in ('params',):                  # main type / subtype mismatches: decided cell by cell in _type_table()
        atom = cmp_atom(kind)
        n_edges = 0
        for n in cfg.live_nodes():
            if n.kind != 'test':
                continue
            srcs = [n.ast]
            for _round in range(3):
                srcs += [v for v in (once_bound(x) for s_ in list(srcs) for x in walk_self(s_)) if v is not None and not any(v is y for y in srcs)]
            atoms = list({id(x): x for s_ in srcs for x in walk_self(s_) if atom(x)}.values())
            if not atoms:
                continue
            for a in atoms:
                mismatch_truth = isinstance(a.ops[0], ast.NotEq)
                for (y, l) in cfg.succ[n.id]:
                    if l not in ('T', 'F'):
                        continue
                    r = for_some_element(n.ast, l == 'T', a)
                    if r is None or r != mismatch_truth:
                        continue
                    n_edges += 1
                    path = flow.find_path(cfg, [y], real_nodes)
                    run.check(path is None, 'a %s mismatch yields the not-matching sentinel' % kind.replace('params', 'parameter value'),
                              ms, n.ast, where='%s:%s' % (ms.file, n.lineno),
                              witness=flow.describe_path(cfg, [n.id] + path) if path else None,
                              runtime_witness='a range with a different %s still matches' % kind)
        if not n_edges:
            raise UnknownIdiom('match_score: no comparison of self.%s with %s.%s found' % (kind, other, kind))

    # (e) quality(): max over match_score of all ranges, last component
    q = p.func(MEDIATYPES + '.quality')
    run.use(q)
    qp = _param_names(q)
    rets = [r for r in _returns(q) if r.value is not None]
    ret = single(rets, 'return', q.qual)
    v = ret.value
    if not (isinstance(v, ast.Subscript)):
        raise UnknownIdiom('quality(): return %s' % short(v, 60))
    idx = p.fold(q.module, v.slice, None, None)
    run.check(idx in (-1, 4), 'quality() returns the last component (q) of the best score', q, ret)
    best = _expand_name(q, v.value)
    if not (isinstance(best, ast.Call) and p.resolve_callable(q, best.func) in ('builtins.max', 'builtins.min', 'builtins.sorted')):
        raise UnknownIdiom('quality(): best score is %s' % short(best, 80))
    # `default=<the not-matching sentinel>` only names the answer for an empty sequence of ranges - harmless; any other
    # keyword (key=...) changes the order
    kw_ok = all(k.arg == 'default' and p.fold(q.module, k.value, None, q) in {sv for sv, _ in sent_vals} for k in best.keywords)
    is_max = p.resolve_callable(q, best.func) == 'builtins.max' and kw_ok and len(best.args) == 1
    gen = best.args[0] if best.args else None
    ok_gen = False
    if isinstance(gen, (ast.GeneratorExp, ast.ListComp)) and len(gen.generators) == 1:
        g = gen.generators[0]
        elt = gen.elt
        if (isinstance(elt, ast.Call) and isinstance(elt.func, ast.Attribute) and elt.func.attr == 'match_score'
                and isinstance(elt.func.value, ast.Name) and isinstance(g.target, ast.Name) and elt.func.value.id == g.target.id
                and not g.ifs):
            it = g.iter
            tgt = p.resolve_callable(q, it.func) if isinstance(it, ast.Call) else None
            if isinstance(tgt, Func) and tgt.qual == MEDIATYPES + '._parse_media_ranges' and len(it.args) == 1 \
                    and isinstance(it.args[0], ast.Name) and len(qp) == 2 and it.args[0].id == qp[1]:
                ok_gen = True
    if not ok_gen:
        raise UnknownIdiom('quality(): scores are not match_score() of every parsed range of the header: %s' % short(best, 100))
    run.check(is_max, 'quality() takes the plain lexicographic maximum of the scores of all ranges', q, best,
              runtime_witness='the least specific matching range decides the quality')

    # (f) best_match(): strict > 0.0, '' otherwise, max keyed on the quality
    bm = p.func(MEDIATYPES + '.best_match')
    bcfg = cfg_of(bm, p)
    run.use_cfg(bcfg)
    cand_var = q_var = None
    max_call = None
    for n in walk_self(bm.node):
        if isinstance(n, ast.Assign) and len(n.targets) == 1 and isinstance(n.targets[0], ast.Tuple) and isinstance(n.value, ast.Call) \
                and p.resolve_callable(bm, n.value.func) == 'builtins.max':
            t = n.targets[0]
            call = n.value
            if len(t.elts) == 2 and all(isinstance(e, ast.Name) for e in t.elts) and call.args and \
                    isinstance(call.args[0], (ast.GeneratorExp, ast.ListComp)) and isinstance(call.args[0].elt, ast.Tuple) \
                    and len(call.args[0].elt.elts) == 2:
                qi = [i for i, e in enumerate(call.args[0].elt.elts)
                      if isinstance(e, ast.Call) and isinstance(p.resolve_callable(bm, e.func), Func)
                      and p.resolve_callable(bm, e.func).qual == MEDIATYPES + '.quality']
                if len(qi) == 1:
                    q_var = t.elts[qi[0]].id
                    cand_var = t.elts[1 - qi[0]].id
                    max_call = (call, qi[0])
    if max_call is None:
        raise UnknownIdiom('best_match(): `(candidate, q) = max((c, quality(c, header)) ...)` not found')
    call, qi = max_call
    key = [k.value for k in call.keywords if k.arg == 'key']
    key_idx = UNKNOWN
    if len(key) == 1 and isinstance(key[0], ast.Lambda) and len(key[0].args.args) == 1:
        b = key[0].body
        if isinstance(b, ast.Subscript) and isinstance(b.value, ast.Name) and b.value.id == key[0].args.args[0].arg:
            key_idx = p.fold(bm.module, b.slice, None, None)
    elif len(key) == 1 and isinstance(key[0], ast.Call) and (dotted(key[0].func) or '').split('.')[-1] == 'itemgetter' \
            and len(key[0].args) == 1 and not key[0].keywords:
        key_idx = p.fold(bm.module, key[0].args[0], None, None)
    elif len(key) == 1 and isinstance(key[0], (ast.Name, ast.Attribute)):
        # a module-level one-return function reads like the lambda: `def _quality_of(pair): return pair[1]`
        kf = p.resolve_callable(bm, key[0])
        if isinstance(kf, Func) and kf.parent is None and not kf.is_async and not kf.node.decorator_list:
            a = kf.node.args
            body = [st for st in kf.node.body
                    if not (isinstance(st, ast.Expr) and isinstance(st.value, ast.Constant) and isinstance(st.value.value, str))]
            if len(a.args) + len(a.posonlyargs) == 1 and not a.vararg and not a.kwarg and not a.kwonlyargs \
                    and len(body) == 1 and isinstance(body[0], ast.Return):
                pn = (a.posonlyargs + a.args)[0].arg
                b = body[0].value
                if isinstance(b, ast.Subscript) and isinstance(b.value, ast.Name) and b.value.id == pn:
                    run.use(kf)
                    key_idx = p.fold(kf.module, b.slice, None, None)
    if not isinstance(key_idx, int) or isinstance(key_idx, bool):
        raise UnknownIdiom('best_match(): ranking key of %s' % short(call, 100))
    ok_key = key_idx in (qi, qi - 2)
    run.check(ok_key, 'best_match() ranks the candidates by their quality', bm, call,
              runtime_witness='the candidate that sorts last by name wins instead of the one with the highest q')

    def is_q(e):
        return isinstance(e, ast.Name) and e.id == q_var

    pos_returns = []
    for r in _returns(bm):
        if r.value is not None and isinstance(r.value, ast.Name) and r.value.id == cand_var:
            pos_returns.append(r)
        elif r.value is not None and isinstance(r.value, ast.Constant) and r.value.value == '':
            run.ok("best_match() answers '' when no candidate is acceptable", bm.loc(r), r)
        else:
            run.fail('best_match() returns the chosen candidate or the empty string', bm, r)
    if not pos_returns:
        raise AnchorError('best_match(): no return of the chosen candidate')
    for r in pos_returns:
        for nid in bcfg.nodes_for(r):
            guards = []
            for n in bcfg.live_nodes():
                if n.kind != 'test' or not any(is_q(x) for x in walk_self(n.ast)):
                    continue
                for (y, l) in bcfg.succ[n.id]:
                    if l in ('T', 'F') and flow.dominated_by_edge(bcfg, nid, (n.id, y, l)):
                        guards.append((n, l == 'T'))
            if not guards:
                run.fail('the chosen candidate is returned only when its quality is > 0.0', bm, r,
                         runtime_witness="best_match(['a/b'], 'a/b;q=0') returns 'a/b'")
                continue
            strict = False
            for n, truth in guards:
                kind = _positivity(n.ast, truth, is_q)
                if kind == 'strict':
                    strict = True
                elif kind == 'unknown':
                    raise UnknownIdiom('best_match(): test %s' % short(n.ast, 60))
            run.check(strict, 'the chosen candidate is returned only when its quality is > 0.0 (strict)', bm,
                      guards[0][0].ast, where='%s:%s' % (bm.file, guards[0][0].lineno),
                      runtime_witness="best_match(['a/b'], 'a/b;q=0') returns 'a/b'")


def _positivity(test, truth: bool, is_q) -> str:
    """Does `test` being `truth` establish q > 0 ?  'strict' | 'weak' | 'unknown'."""
    res = []

    def atom(e):
        if is_q(e):
            return True
        if isinstance(e, ast.Compare) and len(e.ops) == 1:
            l, r = e.left, e.comparators[0]
            return (is_q(l) and _is_const_num(r, (0, 0.0))) or (is_q(r) and _is_const_num(l, (0, 0.0)))
        return False

    atoms = [x for x in walk_self(test) if atom(x) and not (isinstance(x, ast.Name) and _inside_compare(test, x))]
    if not atoms:
        return 'unknown'
    out = 'weak'
    for a in atoms:
        t = implied(test, truth, lambda e, a=a: e is a)
        if t is None:
            continue
        if not isinstance(a, ast.Compare):         # the quantity itself (a name, or the call that computes it) used as a truth value
            if t:
                out = 'strict'
            continue
        op = a.ops[0]
        q_left = is_q(a.left)
        # normalise to "q OP 0"
        opn = type(op)
        if not q_left:
            opn = {ast.Lt: ast.Gt, ast.Gt: ast.Lt, ast.LtE: ast.GtE, ast.GtE: ast.LtE}.get(opn, opn)
        if (opn is ast.Gt and t) or (opn is ast.NotEq and t) or (opn is ast.LtE and not t) or (opn is ast.Eq and not t):
            out = 'strict'
        elif opn in (ast.GtE, ast.Lt, ast.Gt, ast.LtE, ast.Eq, ast.NotEq):
            pass
        else:
            return 'unknown'
    return out


def _inside_compare(root, name_node) -> bool:
    for n in walk_self(root):
        if isinstance(n, ast.Compare) and any(x is name_node for x in ast.walk(n)):
            return True
    return False


# ---------------------------------------------------------------------------
# R2 / R5  escape sets
# ---------------------------------------------------------------------------

class _Escape(Escape):
    """E5 with `X = functools.lru_cache(F)` / `lru_cache(...)(F)` module
    aliases resolved to F (the cache re-raises whatever F raises)."""

    def _alias_target(self, func: Func, fexpr) -> Optional[Func]:
        q = self.p.resolve_expr(func.module, fexpr, func)
        if not q or q in self.p.funcs or q in self.p.classes:
            return None
        head, _, tail = q.rpartition('.')
        m = self.p.modules.get(head)
        if m is None or tail not in m.consts:
            return None
        val = m.consts[tail]
        if not isinstance(val, ast.Call):
            return None
        inner = val
        fn = inner.func
        if isinstance(fn, ast.Call):
            fn = fn.func
        if self.p.resolve_expr(m, fn) not in ('functools.lru_cache', 'functools.cache'):
            return None
        if len(inner.args) != 1:
            return None
        tq = self.p.resolve_expr(m, inner.args[0])
        return self.p.funcs.get(tq) if tq else None

    def _call(self, n, func, selfcls, handlers, out):
        t = self._alias_target(func, n.func)
        if t is not None:
            self.calls_resolved += 1
            sub = self._summ(t, func_owner_class(t))
            self._merge_call(out, sub, func, n, handlers)
            return
        return super()._call(n, func, selfcls, handlers, out)


def _chain(chain) -> List[str]:
    return ['%s %s' % (w, t) for (w, t) in chain][:8]


def r2_documented_errors(run):
    p = run.project
    for c in (INVALID_TYPE, INVALID_RANGE):
        p.cls(c)
        run.check(p.is_subclass(c, 'builtins.ValueError') is True, '%s is a ValueError' % c.rsplit('.', 1)[1], c, 'class %s' % c.rsplit('.', 1)[1],
                  where=p.cls(c).loc())
    E = _Escape(p)
    for name in ('quality', 'best_match'):
        f = p.func('%s.%s' % (MEDIATYPES, name))
        run.use(f)
        summ = E.summary(f)
        bad = {k: v for k, v in summ.items() if p.is_subclass(k, INVALID_TYPE) is not True}
        if not bad:
            run.ok('%s() lets only InvalidMediaType/InvalidMediaRange escape (E5 summary: %s)' % (name, sorted(summ) or 'nothing'), f.loc())
        for k, chain in sorted(bad.items()):
            where, text = chain[-1]
            run.fail('%s() may raise %s, which is not a documented value error' % (name, k), f, text.split('  [')[0], where=where,
                     witness=_chain(chain), runtime_witness='an Accept header member on which the primitive at the end of the chain fails')
    run.extra['c11_escape'] = {'sites': E.sites_seen, 'calls_resolved': E.calls_resolved, 'calls_external': E.calls_external}

    # q validation in _MediaRange.parse
    f = p.func(MEDIATYPES + '._MediaRange.parse')
    cfg = cfg_of(f, p)
    run.use_cfg(cfg)
    floats = [c for c in walk_self(f.node) if isinstance(c, ast.Call) and p.resolve_callable(f, c.func) == 'builtins.float']
    fl = single(floats, 'float() conversion of q', f.qual)
    parent = enclosing_map(f.node)
    stmt = fl
    while not isinstance(stmt, ast.stmt):
        stmt = parent[id(stmt)]
    if not (isinstance(stmt, ast.Assign) and len(stmt.targets) == 1 and isinstance(stmt.targets[0], ast.Name)):
        raise UnknownIdiom('_MediaRange.parse: float() result is not bound to a local: %s' % short(stmt, 80))
    qv = stmt.targets[0].id
    # the constructor calls that receive q
    uses = []
    q_aliases = _alias_closure(f.node, qv)          # `weight = q; return cls(..., weight, ...)`
    for n in cfg.live_nodes():
        if n.kind == 'stmt' and isinstance(n.ast, ast.Return) and n.ast.value is not None and \
                any(isinstance(x, ast.Name) and x.id in q_aliases for x in walk_self(n.ast.value)):
            uses.append(n)
    if not uses:
        raise AnchorError('_MediaRange.parse: no return using the parsed q')

    def is_q(e):
        return isinstance(e, ast.Name) and e.id == qv

    def mentions_q(e):
        return any(is_q(x) for x in walk_self(e))

    def atom_kind(e):
        """('range'|'lt0'|'gt1'|'ge0'|'le1'|'finite'|'nan', node) for the understood tests of q."""
        if isinstance(e, ast.Compare) and len(e.ops) == 2 and all(isinstance(o, ast.LtE) for o in e.ops):
            lo, mid, hi = e.left, e.comparators[0], e.comparators[1]
            if _is_const_num(lo, (0, 0.0)) and is_q(mid) and _is_const_num(hi, (1, 1.0)):
                return 'range'
        if isinstance(e, ast.Compare) and len(e.ops) == 1:
            l, r, op = e.left, e.comparators[0], type(e.ops[0])
            if is_q(r) and not is_q(l):
                l, r = r, l
                op = {ast.Lt: ast.Gt, ast.Gt: ast.Lt, ast.LtE: ast.GtE, ast.GtE: ast.LtE}.get(op, op)
            if is_q(l):
                if op is ast.Lt and _is_const_num(r, (0, 0.0)):
                    return 'lt0'
                if op is ast.Gt and _is_const_num(r, (1, 1.0)):
                    return 'gt1'
                if op is ast.GtE and _is_const_num(r, (0, 0.0)):
                    return 'ge0'
                if op is ast.LtE and _is_const_num(r, (1, 1.0)):
                    return 'le1'
        if isinstance(e, ast.Call) and len(e.args) == 1 and is_q(e.args[0]) and not e.keywords:
            t = p.resolve_callable(f, e.func)
            if t == 'math.isfinite':
                return 'finite'
            if t in ('math.isnan', 'math.isinf'):
                return 'nan' if t == 'math.isnan' else 'inf'
        return None

    def facts_of(test, truth) -> Set[str]:
        out: Set[str] = set()
        covered = set()
        for x in walk_self(test):
            k = atom_kind(x)
            if k is None:
                continue
            for y in ast.walk(x):
                covered.add(id(y))
            t = implied(test, truth, lambda e, x=x: e is x)
            if t is None:
                continue
            if k == 'range' and t:
                out |= {'lower', 'upper', 'notnan'}
            elif k == 'lt0' and not t:
                out.add('lower')
            elif k == 'gt1' and not t:
                out.add('upper')
            elif k == 'ge0' and t:
                out |= {'lower', 'notnan'}
            elif k == 'le1' and t:
                out |= {'upper', 'notnan'}
            elif k == 'finite' and t:
                out.add('notnan')
            elif k == 'nan' and not t:
                out.add('notnan')
        for x in walk_self(test):
            if is_q(x) and id(x) not in covered:
                raise UnknownIdiom('_MediaRange.parse: q is tested by %s, which is not a known range idiom' % short(test, 80))
        return out

    for u in uses:
        facts: Set[str] = set()
        for n in cfg.live_nodes():
            if n.kind != 'test' or not mentions_q(n.ast):
                continue
            for (y, l) in cfg.succ[n.id]:
                if l in ('T', 'F') and flow.dominated_by_edge(cfg, u.id, (n.id, y, l)):
                    facts |= facts_of(n.ast, l == 'T')
        run.check(facts >= {'lower', 'upper', 'notnan'},
                  'a parsed q reaches the range object only when it is a number inside [0, 1] (established: %s)' % (sorted(facts) or 'nothing'),
                  f, u.ast, where='%s:%s' % (f.file, u.lineno), runtime_witness="quality('a/b', 'a/b;q=7') or q=nan is accepted")


def _const_eval_return(f: Func, cfg, path: List[int]):
    """Value returned at the end of `path` when every name it depends on was
    bound to a constant on the path; UNKNOWN otherwise."""
    env: Dict[str, object] = {}
    last = cfg.node(path[-1])
    for nid in path[:-1]:
        n = cfg.node(nid)
        if n.kind == 'stmt' and isinstance(n.ast, ast.Assign) and len(n.ast.targets) == 1 and isinstance(n.ast.targets[0], ast.Name):
            v = n.ast.value
            env[n.ast.targets[0].id] = v.value if isinstance(v, ast.Constant) else UNKNOWN

    def ev(e):
        if isinstance(e, ast.Constant):
            return e.value
        if isinstance(e, ast.Name):
            return env.get(e.id, UNKNOWN)
        if isinstance(e, ast.IfExp):
            t = ev(e.test)
            if t is UNKNOWN:
                return UNKNOWN
            return ev(e.body) if t else ev(e.orelse)
        if isinstance(e, ast.BoolOp):
            cur = None
            for v in e.values:
                cur = ev(v)
                if cur is UNKNOWN:
                    return UNKNOWN
                if isinstance(e.op, ast.Or) and cur:
                    return cur
                if isinstance(e.op, ast.And) and not cur:
                    return cur
            return cur
        if isinstance(e, ast.UnaryOp) and isinstance(e.op, ast.Not):
            t = ev(e.operand)
            return UNKNOWN if t is UNKNOWN else (not t)
        return UNKNOWN

    if not (last.kind == 'stmt' and isinstance(last.ast, ast.Return)):
        return UNKNOWN
    return None if last.ast.value is None else ev(last.ast.value)


_ASCII_KEEPING = ('lower', 'upper', 'casefold', 'strip', 'lstrip', 'rstrip', 'title', 'capitalize', 'swapcase')


def _ascii_kept(e, pn: str) -> bool:
    """`e` is the parameter `pn` under str methods that map ASCII text to ASCII text"""
    if isinstance(e, ast.Name):
        return e.id == pn
    if isinstance(e, ast.Call) and isinstance(e.func, ast.Attribute) and not e.keywords:
        if e.func.attr in _ASCII_KEEPING and not e.args:
            return _ascii_kept(e.func.value, pn)
        if e.func.attr == 'replace' and len(e.args) == 2 and all(isinstance(a, ast.Constant) and isinstance(a.value, str) and a.value.isascii()
                                                                 for a in e.args):
            return _ascii_kept(e.func.value, pn)
    return False


def _constant_name_encodes(p) -> Dict[Tuple[str, str], str]:
    """Checked exemption for the escape summary of the negotiators (DESIGN 1.3 (7)): a strict `<x>.encode(<codec>)` inside
    a member of the request class is exempt when <x> is a parameter of that member (under ASCII-preserving str methods,
    never re-bound) and EVERY call of the member within the negotiation closure passes an ASCII str constant for it -
    `self.get_header('Accept')` encodes the header NAME, not the client's header value."""
    out: Dict[Tuple[str, str], str] = {}
    for _tag, cq in REQUEST_FLAVOURS:
        if cq not in p.classes:
            continue
        H = _HeaderLiveness(None, p, cq)
        funcs: List[Func] = []
        for name in sorted(NEGOTIATORS):
            f = p.lookup_method(cq, name)
            if f is None:
                continue
            try:
                for g in H.closure(f)[2]:
                    if not any(g is x for x in funcs):
                        funcs.append(g)
            except UnknownIdiom:
                return {}
        sites: Dict[str, List[Tuple[Func, ast.Call, Func]]] = {}
        for g in funcs:
            sn = _first_param(g)
            for c in walk_self(g.node):
                if isinstance(c, ast.Call) and isinstance(c.func, ast.Attribute) and isinstance(c.func.value, ast.Name) and c.func.value.id == sn:
                    h = p.lookup_method(cq, c.func.attr)
                    if h is not None and any(h is x for x in funcs):
                        sites.setdefault(h.qual, []).append((g, c, h))
        for hq, ss in sorted(sites.items()):
            h = ss[0][2]
            params = _param_names(h)
            for i, pn in enumerate(params):
                vals = []
                for g, c, _h in ss:
                    if any(isinstance(a, ast.Starred) for a in c.args) or any(k.arg is None for k in c.keywords):
                        vals.append(UNKNOWN)
                        continue
                    a = c.args[i] if i < len(c.args) else next((k.value for k in c.keywords if k.arg == pn), None)
                    vals.append(p.fold(g.module, a, None, g) if a is not None else UNKNOWN)
                if not vals or not all(isinstance(v, str) and v.isascii() for v in vals) or _assignments(h.node, pn):
                    continue
                for n in walk_self(h.node):
                    if isinstance(n, ast.Call) and isinstance(n.func, ast.Attribute) and n.func.attr == 'encode' and _ascii_kept(n.func.value, pn):
                        out[(h.qual, ' '.join(short(n, 200).split()))] = \
                            'encodes the parameter `%s`, an ASCII constant (%s) at every call within the negotiation closure' % (
                                pn, ', '.join(sorted({repr(v) for v in vals})))
    return out


def r5_client_negotiation(run):
    p = run.project
    E = _Escape(p, site_exempt=_constant_name_encodes(p))
    want = {'client_accepts': False, 'client_prefers': None}
    escaped: Dict[str, bool] = {}
    for cq in ('falcon.request.Request', 'falcon.asgi.request.Request'):
        c = p.cls(cq)
        for name in sorted(want):
            f = p.lookup_method(cq, name)
            if f is None:
                raise AnchorError('%s.%s not found' % (cq, name))
            run.use(f)
            summ = E.summary(f, selfcls=c)
            bad = {k: v for k, v in summ.items() if p.is_subclass(k, 'builtins.ValueError') is not False}
            if not bad:
                run.ok('%s.%s lets no ValueError escape' % (cq, name), f.loc())
            for k, chain in sorted(bad.items()):
                where, text = chain[-1]
                escaped[name] = True
                run.fail('%s (as seen from %s) may raise %s for a malformed Accept header' % (name, cq, k), f, text.split('  [')[0],
                         where=where, witness=_chain(chain), runtime_witness="Accept: 'text/plain;q=x'")
    # the handled ValueError turns into the documented negative answer
    for name, neg in sorted(want.items()):
        f = p.func('falcon.request.Request.' + name)
        cfg = cfg_of(f, p)
        run.use_cfg(cfg)
        hs = [n for n in cfg.live_nodes() if n.kind == 'handler' and n.ast.type is not None
              and any(p.resolve_expr(f.module, t, f) == 'builtins.ValueError'
                      for t in (n.ast.type.elts if isinstance(n.ast.type, ast.Tuple) else [n.ast.type]))]
        if not hs:
            if escaped.get(name):
                continue
            raise AnchorError('%s: no `except ValueError` arm' % f.qual)
        for h in hs:
            rets = [n.id for n in cfg.live_nodes() if n.kind == 'stmt' and isinstance(n.ast, ast.Return)]
            reach = flow.reachable(cfg, [h.id], edge_filter=flow.no_exc)
            for r in [x for x in rets if x in reach]:
                path = flow.find_path(cfg, [h.id], [r], edge_filter=flow.no_exc)
                if any(cfg.node(x).kind in ('test', 'iter') for x in path[1:-1]):
                    raise UnknownIdiom('%s: branching between the ValueError handler and its return' % f.qual)
                val = _const_eval_return(f, cfg, path)
                if val is UNKNOWN:
                    raise UnknownIdiom('%s: cannot evaluate %s on the handler path' % (f.qual, short(cfg.node(r).ast, 60)))
                run.check(val is neg, '%s answers %r when the Accept header cannot be parsed' % (name, neg), f, cfg.node(r).ast,
                          where='%s:%s' % (f.file, cfg.node(r).lineno), witness=flow.describe_path(cfg, path),
                          runtime_witness="Accept: 'text/plain;q=x' -> %r" % (val,))


# ---------------------------------------------------------------------------
# R3 cache coherence over the MRO (package + stdlib source)
# ---------------------------------------------------------------------------

DATA = 'data'
RESOLVER = '_resolve'
MUTATORS = {'update', 'pop', 'popitem', 'clear', 'setdefault', '__setitem__', '__delitem__', '__ior__'}
# writers that can store several items and raise in between (dict.update is not
# atomic: items consumed before the source raised stay stored)
BULK_MUTATORS = {'update', '__ior__', '__init__'}
_MATERIALISING = ('dict', 'list', 'tuple', 'set', 'frozenset', 'sorted')


class _StdClass:
    def __init__(self, qual, node, modname, path):
        self.qual = qual
        self.node = node
        self.modname = modname
        self.path = path
        self.methods: Dict[str, ast.AST] = {}
        for s in node.body:
            if isinstance(s, (ast.FunctionDef, ast.AsyncFunctionDef)):
                self.methods.setdefault(s.name, s)
        self.bases: List[str] = []


def _std_relpath(modname: str) -> str:
    import os

    base = os.path.dirname(os.__file__)
    cand = os.path.join(base, *modname.split('.'))
    if os.path.isfile(cand + '.py'):
        return modname.replace('.', '/') + '.py'
    return modname.replace('.', '/') + '/__init__.py'


class _StdLib:
    """Classes of the running interpreter's pure-Python stdlib, from source."""

    def __init__(self):
        self.mods: Dict[str, ast.Module] = {}
        self.classes: Dict[str, _StdClass] = {}

    def module(self, name):
        if name not in self.mods:
            src = stdlib_source(name)
            if src is None:
                raise AnchorError('stdlib source of %s not available' % name)
            try:
                self.mods[name] = ast.parse(src)
            except SyntaxError as e:  # pragma: no cover
                raise AnchorError('stdlib source of %s does not parse: %s' % (name, e))
        return self.mods[name]

    def cls(self, qual) -> Optional[_StdClass]:
        if qual in self.classes:
            return self.classes[qual]
        modname, _, cname = qual.rpartition('.')
        if not modname:
            return None
        try:
            tree = self.module(modname)
        except AnchorError:
            return None
        node = None
        imports = {}
        for s in tree.body:
            if isinstance(s, ast.ClassDef) and s.name == cname:
                node = s
            elif isinstance(s, ast.Import):
                for a in s.names:
                    imports[a.asname or a.name.split('.')[0]] = a.name
            elif isinstance(s, ast.ImportFrom) and s.module and not s.level:
                for a in s.names:
                    imports[a.asname or a.name] = s.module + '.' + a.name
        if node is None:
            return None
        c = _StdClass(qual, node, modname, _std_relpath(modname))
        self.classes[qual] = c
        for b in node.bases:
            if isinstance(b, ast.Name):
                bq = imports.get(b.id, modname + '.' + b.id)
            elif isinstance(b, ast.Attribute) and isinstance(b.value, ast.Name) and b.value.id in imports:
                bq = imports[b.value.id] + '.' + b.attr
            else:
                continue
            if self.cls(bq) is not None:
                c.bases.append(bq)
        return c

    def mro(self, qual) -> List[str]:
        c = self.cls(qual)
        if c is None:
            return []
        seqs = [self.mro(b) for b in c.bases] + [list(c.bases)]
        seqs = [list(s) for s in seqs if s]
        res = [qual]
        while seqs:
            cand = None
            for s in seqs:
                if not any(s[0] in t[1:] for t in seqs):
                    cand = s[0]
                    break
            if cand is None:
                raise UnknownIdiom('inconsistent MRO below %s' % qual)
            res.append(cand)
            seqs = [[x for x in s if x != cand] for s in seqs]
            seqs = [s for s in seqs if s]
        return res


class _MethodDef:
    """One `def` of a method somewhere in the MRO."""

    def __init__(self, owner: str, name: str, node, func: Optional[Func], file: str):
        self.owner = owner
        self.name = name
        self.node = node
        self.func = func          # package Func, None for stdlib
        self.file = file
        a = node.args
        pos = [x.arg for x in a.posonlyargs + a.args]
        decos = [unparse(d) for d in node.decorator_list]
        self.static = 'staticmethod' in decos
        self.classm = 'classmethod' in decos
        self.selfname = pos[0] if pos and not self.static and not self.classm else None

    @property
    def qual(self):
        return '%s.%s' % (self.owner, self.name)

    def loc(self, node=None):
        return '%s:%d' % (self.file, (node if node is not None and hasattr(node, 'lineno') else self.node).lineno)


class _Hierarchy:
    def __init__(self, project, cqual: str):
        self.p = project
        self.cqual = cqual
        self.std = _StdLib()
        self.mro: List[str] = []
        for k in project.mro(cqual):
            if k in project.classes:
                self.mro.append(k)
            else:
                sub = self.std.mro(k)
                if not sub:
                    if k in ('builtins.object', 'typing.Generic'):
                        continue
                    raise AnchorError('base class %s of %s: source not available' % (k, cqual))
                for s in sub:
                    if s not in self.mro:
                        self.mro.append(s)
        self._writer_memo: Dict[int, bool] = {}
        self._bulk_memo: Dict[int, bool] = {}
        # id(statement) -> 'item' (one atomic store/removal) | 'bulk' (one statement that can fail part-way)
        #                  | 'loop' (an atomic store repeated by an enclosing loop)
        self.site_kind: Dict[int, str] = {}

    def defs_in(self, k: str) -> Dict[str, _MethodDef]:
        out = {}
        if k in self.p.classes:
            c = self.p.classes[k]
            for name, f in c.methods.items():
                out[name] = _MethodDef(k, name, f.node, f, f.file)
            # class-level aliases of methods defined in the same body
            # (`__copy__ = copy`): the alias dispatches to that def
            for name, val in c.attrs.items():
                if name not in out and isinstance(val, ast.Name) and val.id in c.methods:
                    f = c.methods[val.id]
                    out[name] = _MethodDef(k, name, f.node, f, f.file)
        else:
            sc = self.std.cls(k)
            for name, node in sc.methods.items():
                out[name] = _MethodDef(k, name, node, None, '<stdlib>/' + sc.path)
        return out

    def lookup(self, name: str, after: Optional[str] = None) -> Optional[_MethodDef]:
        mro = self.mro
        if after is not None:
            if after not in mro:
                return None
            mro = mro[mro.index(after) + 1:]
        for k in mro:
            d = self.defs_in(k).get(name)
            if d is not None:
                return d
        return None

    def effective(self) -> List[_MethodDef]:
        seen = {}
        for k in self.mro:
            for name, d in self.defs_in(k).items():
                seen.setdefault(name, d)
        return [seen[n] for n in sorted(seen)]

    # ------------------------------------------------------------ write sites
    def _is_self_data(self, e, selfname, aliases=()):
        if isinstance(e, ast.Attribute) and e.attr == DATA and isinstance(e.value, ast.Name) and e.value.id == selfname:
            return True
        if isinstance(e, ast.Name) and e.id in aliases:
            return True
        # self.__dict__['data']
        if isinstance(e, ast.Subscript) and isinstance(e.value, ast.Attribute) and e.value.attr == '__dict__' \
                and isinstance(e.value.value, ast.Name) and e.value.value.id == selfname \
                and isinstance(e.slice, ast.Constant) and e.slice.value == DATA:
            return True
        return False

    def _aliases(self, d: _MethodDef) -> Set[str]:
        out = set()
        for n in walk_self(d.node):
            if isinstance(n, ast.Assign) and self._is_self_data(n.value, d.selfname):
                for t in n.targets:
                    if isinstance(t, ast.Name):
                        out.add(t.id)
        return out

    def base_call_target(self, d: _MethodDef, call: ast.Call) -> Optional[_MethodDef]:
        """`super().m(...)` / `Base.m(self, ...)` -> the shadowed definition."""
        f = call.func
        if not isinstance(f, ast.Attribute):
            return None
        v = f.value
        if isinstance(v, ast.Call) and isinstance(v.func, ast.Name) and v.func.id == 'super':
            return self.lookup(f.attr, after=d.owner)
        if d.selfname and call.args and isinstance(call.args[0], ast.Name) and call.args[0].id == d.selfname \
                and isinstance(v, (ast.Name, ast.Attribute)):
            bq = None
            if d.func is not None:
                bq = self.p.resolve_expr(d.func.module, v, d.func)
            elif isinstance(v, ast.Name):
                sc = self.std.cls(d.owner)
                bq = sc.modname + '.' + v.id if sc else None
            if bq in self.mro:
                t = self.defs_in(bq).get(f.attr)
                return t if t is not None else self.lookup(f.attr, after=bq)
        return None

    def write_sites(self, d: _MethodDef) -> List[Tuple[ast.stmt, str]]:
        """Simple statements of `d` that change the mapping without going
        through the (overridable) item protocol of `self`."""
        if d.selfname is None:
            return []
        s = d.selfname
        al = self._aliases(d)
        out = []

        par = enclosing_map(d.node)

        def in_comprehension(node, stmt) -> bool:
            cur = par.get(id(node))
            while cur is not None and cur is not stmt:
                if isinstance(cur, (ast.ListComp, ast.SetComp, ast.DictComp, ast.GeneratorExp)):
                    return True
                cur = par.get(id(cur))
            return False

        def direct(stmt) -> Optional[Tuple[str, str]]:
            tgts = []
            if isinstance(stmt, ast.Assign):
                tgts = list(stmt.targets)
            elif isinstance(stmt, (ast.AugAssign, ast.AnnAssign)):
                if not (isinstance(stmt, ast.AnnAssign) and stmt.value is None):
                    tgts = [stmt.target]
            elif isinstance(stmt, ast.Delete):
                tgts = list(stmt.targets)
            flat = []
            for t in tgts:
                flat.extend(t.elts if isinstance(t, (ast.Tuple, ast.List)) else [t])
            merge = isinstance(stmt, ast.AugAssign) and isinstance(stmt.op, ast.BitOr)
            for t in flat:
                if self._is_self_data(t, s):
                    return 'rebinds or updates self.%s' % DATA, 'bulk' if merge else 'item'
                if isinstance(t, ast.Subscript) and self._is_self_data(t.value, s, al):
                    return 'writes an item of self.%s' % DATA, 'item'
                if isinstance(stmt, ast.AugAssign) and isinstance(t, ast.Name) and t.id in al:
                    return 'updates an alias of self.%s in place' % DATA, 'bulk' if merge else 'item'
            for c in walk_self(stmt):
                if not isinstance(c, ast.Call):
                    continue
                f = c.func
                why = kind = None
                if isinstance(f, ast.Attribute) and f.attr in (MUTATORS | BULK_MUTATORS) and self._is_self_data(f.value, s, al):
                    why, kind = 'calls self.%s.%s()' % (DATA, f.attr), 'bulk' if f.attr in BULK_MUTATORS else 'item'
                elif isinstance(f, ast.Attribute) and f.attr in (MUTATORS | BULK_MUTATORS) and isinstance(f.value, ast.Name) and f.value.id == 'dict' \
                        and c.args and self._is_self_data(c.args[0], s, al):
                    why, kind = 'calls dict.%s(self.%s, ...)' % (f.attr, DATA), 'bulk' if f.attr in BULK_MUTATORS else 'item'
                elif isinstance(f, ast.Attribute) and f.attr == 'update' and isinstance(f.value, ast.Attribute) and f.value.attr == '__dict__' \
                        and isinstance(f.value.value, ast.Name) and f.value.value.id == s:
                    why, kind = 'updates self.__dict__', 'item'
                elif isinstance(f, ast.Name) and f.id in ('setattr', 'delattr') and len(c.args) >= 2 and isinstance(c.args[0], ast.Name) \
                        and c.args[0].id == s and isinstance(c.args[1], ast.Constant) and c.args[1].value == DATA:
                    why, kind = '%s(self, %r)' % (f.id, DATA), 'item'
                else:
                    t = self.base_call_target(d, c)
                    if t is not None and self.is_writer(t):
                        why = 'calls the shadowed %s, which writes self.%s directly' % (t.qual, DATA)
                        kind = 'bulk' if self.is_bulk_writer(t) else 'item'
                if why:
                    if in_comprehension(c, stmt):
                        kind = 'bulk'
                    return why, kind
            return None

        for n in walk_self(d.node):
            if isinstance(n, (ast.Assign, ast.AugAssign, ast.AnnAssign, ast.Delete, ast.Expr, ast.Return)):
                r = direct(n)
                if r:
                    why, kind = r
                    if kind == 'item':
                        cur = par.get(id(n))
                        while cur is not None and cur is not d.node:
                            if isinstance(cur, (ast.For, ast.AsyncFor, ast.While)):
                                kind = 'loop'
                                break
                            cur = par.get(id(cur))
                    self.site_kind[id(n)] = kind
                    out.append((n, why))
        out.sort(key=lambda x: (x[0].lineno, x[0].col_offset))
        return out

    def is_bulk_writer(self, d: _MethodDef) -> bool:
        """Some direct write of `d` can leave the mapping partly updated when it raises."""
        k = id(d.node)
        if k not in self._bulk_memo:
            self._bulk_memo[k] = False
            self._bulk_memo[k] = any(self.site_kind.get(id(st)) != 'item' for st, _ in self.write_sites(d))
        return self._bulk_memo[k]

    def materialised(self, d: _MethodDef, e, depth=0) -> bool:
        """`e` is a builtin container built before the loop runs: iterating it cannot raise part-way."""
        if depth > 6:
            return False
        if isinstance(e, (ast.Dict, ast.List, ast.Tuple, ast.Set, ast.Constant)):
            return True
        if isinstance(e, ast.Call) and isinstance(e.func, ast.Name) and e.func.id in _MATERIALISING:
            return True
        if isinstance(e, ast.Call) and isinstance(e.func, ast.Attribute) and e.func.attr in ('items', 'keys', 'values', 'copy') and not e.args:
            return self.materialised(d, e.func.value, depth + 1)
        if isinstance(e, ast.Name):
            binds = _assignments(d.node, e.id)
            return bool(binds) and all(v is not None and self.materialised(d, v, depth + 1) for _, v in binds)
        return False

    def is_writer(self, d: _MethodDef) -> bool:
        k = id(d.node)
        if k not in self._writer_memo:
            self._writer_memo[k] = False
            self._writer_memo[k] = bool(self.write_sites(d))
        return self._writer_memo[k]

    # ------------------------------------------------- clearing helpers
    def clearing_call(self, d: _MethodDef, call: ast.Call, depth=0) -> Tuple[bool, bool]:
        """`self.<helper>(...)` in `d`, dispatched as seen from the receiver's class, whose body performs
        `self._resolve.cache_clear()` -> (on every normal path to its exit, on every path to an exceptional exit).
        (False, False) for anything else.  The helper is followed through further same-class helpers, depth <= 3."""
        f = call.func
        if d.selfname is None or not (isinstance(f, ast.Attribute) and isinstance(f.value, ast.Name) and f.value.id == d.selfname):
            return (False, False)
        t = self.lookup(f.attr)
        if t is None or t.func is None or t.selfname is None or t.node is d.node:
            return (False, False)
        return self.clears_always(t, depth)

    def clears_always(self, t: _MethodDef, depth=0) -> Tuple[bool, bool]:
        memo = self.__dict__.setdefault('_clears_memo', {})
        k = id(t.node)
        if k in memo:
            return memo[k]
        memo[k] = (False, False)       # recursion guard
        if depth >= 3 or t.func is None or t.func.is_async or any(isinstance(n, (ast.Yield, ast.YieldFrom)) for n in walk_self(t.node)):
            return memo[k]
        cfg = cfg_of(t.func, self.p)
        on_normal, on_exc = set(), set()
        for n in cfg.live_nodes():
            for c in n.calls():
                if _is_clear(c, t.selfname, t.node):
                    on_normal.add(n.id)
                    on_exc.add(n.id)       # the clearing itself does not fail half-way (same reading as in the caller)
                else:
                    nm, ex = self.clearing_call(t, c, depth + 1)
                    if nm:
                        on_normal.add(n.id)
                    if nm and ex:
                        on_exc.add(n.id)

        def edge_ok(x, y, l):
            if x in on_exc and l == 'exc':
                return False
            if x in on_normal and l != 'exc':
                return False
            return True

        seen = flow.reachable(cfg, [cfg.entry], edge_filter=edge_ok)
        memo[k] = (cfg.exit not in seen, cfg.xexit not in seen)
        return memo[k]

    # ------------------------------------------------- constructor bypass
    def bypass_sites(self, d: _MethodDef) -> List[ast.stmt]:
        """Statements creating an instance of the receiver's class without
        running its constructor (`X.__new__(...)`, copy.copy(self))."""
        out = []
        for n in walk_self(d.node):
            if isinstance(n, ast.stmt) and not isinstance(n, (ast.FunctionDef, ast.AsyncFunctionDef, ast.ClassDef, ast.If, ast.For,
                                                                 ast.While, ast.Try, ast.With)):
                for c in walk_self(n):
                    if isinstance(c, ast.Call) and isinstance(c.func, ast.Attribute) and c.func.attr == '__new__':
                        out.append(n)
                        break
        return out


def _is_clear(call: ast.Call, selfname='self', fnode=None) -> bool:
    """`self._resolve.cache_clear()` - also through a local of `fnode` bound once to the resolver
    (`r = self._resolve; r.cache_clear()`) or to the bound method (`clear = self._resolve.cache_clear; clear()`)."""
    def once(e):
        if isinstance(e, ast.Name) and fnode is not None:
            binds = _assignments(fnode, e.id)
            if len(binds) == 1 and binds[0][1] is not None:
                return _unwrap_cast(binds[0][1])
        return e

    def is_resolver(e):
        e = once(_unwrap_cast(e))
        return isinstance(e, ast.Attribute) and e.attr == RESOLVER and isinstance(e.value, ast.Name) and e.value.id == selfname

    f = once(call.func)
    if f is not call.func and (call.args or call.keywords):
        return False
    return isinstance(f, ast.Attribute) and f.attr == 'cache_clear' and is_resolver(f.value)


def _is_fresh_resolver(stmt, selfname='self') -> bool:
    if isinstance(stmt, (ast.Assign, ast.AnnAssign)) and stmt.value is not None:
        tgts = stmt.targets if isinstance(stmt, ast.Assign) else [stmt.target]
        if any(isinstance(t, ast.Attribute) and t.attr == RESOLVER and isinstance(t.value, ast.Name) and t.value.id == selfname for t in tgts):
            v = _unwrap_cast(stmt.value)
            return (isinstance(v, ast.Call) and isinstance(v.func, ast.Attribute) and v.func.attr == '_create_resolver'
                    and isinstance(v.func.value, ast.Name) and v.func.value.id == selfname)
    return False


def _cfg_with_raising_writes(f: Func, p, bulk_stmts):
    """The CFG of `f` in which every bulk write has exceptional out-edges.  The shared CFG gives them only to
    statements with a call / subscript load; `self.data |= other` has neither, yet dict.__ior__ runs arbitrary
    code of `other`.  In that case a private CFG is built with those statements declared raising."""
    cfg = cfg_of(f, p)

    def lacking(c):
        return [st for st in bulk_stmts if any(not any(l == 'exc' for _, l in c.succ[nid]) for nid in c.nodes_for(st))]

    if not lacking(cfg):
        return cfg
    from .. import cfg as cfgmod
    orig = getattr(cfgmod, '_may_raise_expr', None)
    if orig is None or not hasattr(cfgmod, 'CFG'):
        raise UnknownIdiom('%s: bulk write %s has no exceptional edges in the CFG' % (f.qual, short(lacking(cfg)[0], 60)))
    ids = {id(st) for st in bulk_stmts}
    cfgmod._may_raise_expr = lambda e: id(e) in ids or orig(e)
    try:
        private = cfgmod.CFG(f, p)
    finally:
        cfgmod._may_raise_expr = orig
    if lacking(private):
        raise UnknownIdiom('%s: bulk write %s has no exceptional edges in the CFG' % (f.qual, short(lacking(private)[0], 60)))
    return private


def r3_cache_coherence(run):
    p = run.project
    hc = p.cls(HANDLERS)
    H = _Hierarchy(p, HANDLERS)
    if not any(k not in p.classes for k in H.mro):
        raise AnchorError('%s no longer derives from a stdlib mapping class' % HANDLERS)
    run.extra['c11_r3_mro'] = H.mro
    run.assume('a single-item write of the mapping (d[k] = v, del d[k], pop, setdefault, clear, rebinding) either completes or raises '
               'before changing it; bulk writes (update, |=, dict.__init__, a comprehension or a loop of stores) can raise after '
               'having stored some items; callees that merely receive self.data as an argument do not mutate it '
               '(except the unbound dict.<mutator>(self.data, ...) forms)')

    # anchor: the resolver is a per-call cached closure
    cr = p.func(HANDLERS + '._create_resolver')
    nested = list(cr.nested.values())
    res = single(nested, 'nested resolver function', cr.qual)
    decos = [d for d in res.node.decorator_list]
    cached = False
    for d in decos:
        fn = d.func if isinstance(d, ast.Call) else d
        q = p.resolve_expr(cr.module, fn, cr)
        if q in ('falcon.util.misc._lru_cache_for_simple_logic', 'functools.lru_cache', 'functools.cache'):
            cached = True
    if not cached:
        raise UnknownIdiom('%s: the resolver closure is not decorated with a known cache' % cr.qual)
    for r in _returns(cr):
        v = _unwrap_cast(r.value) if r.value is not None else None
        if not (isinstance(v, ast.Name) and v.id == res.node.name):
            raise UnknownIdiom('%s returns %s instead of its cached closure' % (cr.qual, short(r.value, 60)))

    # (a) every effective method, as seen from Handlers
    n_checked = 0
    for d in H.effective():
        sites = H.write_sites(d)
        bypass = H.bypass_sites(d)
        n_checked += 1
        if d.func is None:
            # stdlib code cannot clear our cache
            if sites:
                stmt, why = sites[0]
                run.fail('%s inherits %s, which %s without clearing the resolver cache (not overridden)' % (HANDLERS, d.qual, why),
                         d.qual, stmt, where=d.loc(stmt),
                         witness=['%s %s  [%s]' % (d.loc(s), short(s, 80), w) for s, w in sites],
                         runtime_witness='resolve a type, change its handler through %s, resolve again -> the old handler' % d.name)
            else:
                run.ok('inherited %s changes the mapping only through the item protocol of self (or not at all)' % d.qual, d.loc())
            if bypass:
                stmt = bypass[0]
                run.fail('%s inherits %s, which creates an instance without running the constructor, so the new object '
                         'shares the resolver (and its cache) bound to the original mapping' % (HANDLERS, d.qual),
                         d.qual, stmt, where=d.loc(stmt), witness=['%s %s' % (d.loc(s), short(s, 80)) for s in bypass],
                         runtime_witness='c = copy.copy(handlers); c[new_type] = h; c._resolve(new_type, ...) -> 415')
            continue
        f = d.func
        if bypass:
            raise UnknownIdiom('%s creates an instance through __new__' % f.qual)
        if not sites:
            run.ok('%s changes the mapping only through the item protocol of self (or not at all)' % f.qual, f.loc())
            continue
        site_ids = {id(s): w for s, w in sites}
        cfg = _cfg_with_raising_writes(f, p, [s for s, _ in sites if H.site_kind.get(id(s)) == 'bulk'])
        run.use_cfg(cfg)
        sn = d.selfname

        kinds = {k: H.site_kind.get(k, 'item') for k in site_ids}
        has_bulk = any(k != 'item' for k in kinds.values())

        def lab(n, site_ids=site_ids, sn=sn, kinds=kinds, d=d):
            out = []
            if n.kind == 'stmt' and _is_fresh_resolver(n.ast, sn):
                out.append('FRESH')
            for c in n.calls():
                helper = H.clearing_call(d, c) if not _is_clear(c, sn, d.node) else (False, False)
                if helper[0]:
                    # a same-class helper whose every normal path performs the cache_clear(): completing the call
                    # is the clearing; its exceptional exits answer a pending partial write only when they, too,
                    # all come after the clearing
                    if helper[1]:
                        out.append('^UNPARTIAL')
                    out.append('CLEAR')
                elif _is_clear(c, sn, d.node):
                    # the clearing itself cannot fail half-way: on the exceptional edges out of this node a
                    # pending partial write counts as answered, the normal bookkeeping happens on completion
                    out.append('^UNPARTIAL')
                    out.append('CLEAR')
                elif isinstance(c.func, ast.Attribute) and c.func.attr == RESOLVER and isinstance(c.func.value, ast.Name) and c.func.value.id == sn:
                    out.append('RESOLVE')
            if n.kind == 'stmt' and id(n.ast) in site_ids:
                k = kinds[id(n.ast)]
                if k == 'bulk':
                    out.append('^PARTIAL')      # items may already be stored when the statement raises
                out.append('WRITEL' if k == 'loop' else 'WRITE')
            return out

        # state: 'D'/'c' (mapping written since the last reset / clean) + 'F'/'o' (resolver created in this call
        # and not yet used / older resolver) + 'X'/'-' (a bulk write has stored items that no cache_clear() has
        # answered yet: leaving by an exception now keeps them with a stale cache / no such items).
        # A plain string, because the engine formats states with '%s'.
        def delta(st, l):
            dirty, fresh, part = st[0] == 'D', st[1] == 'F', st[2] == 'X'
            if l == 'FRESH':
                dirty, fresh, part = False, True, False
            elif l == 'CLEAR':
                dirty = part = False
            elif l == 'UNPARTIAL':
                part = False
            elif l == 'RESOLVE':
                fresh = False
            elif l == 'WRITE':
                dirty = dirty or not fresh
            elif l == 'WRITEL':
                dirty = dirty or not fresh
                part = part or not fresh
            elif l == 'PARTIAL':
                part = part or not fresh
            return ('D' if dirty else 'c') + ('F' if fresh else 'o') + ('X' if part else '-')

        # a loop over a container that was built before the loop started does not raise between two stores
        quiet_iters = {n.id for n in cfg.live_nodes() if n.kind == 'iter' and isinstance(n.stmt, (ast.For, ast.AsyncFor))
                       and H.materialised(d, n.stmt.iter)}

        def edge_delta(st, a, b, l, quiet_iters=quiet_iters):
            if l == 'exc' and a in quiet_iters:
                return None
            return st

        cex, _, _ = flow.typestate(cfg, lab, delta, 'co-', exit_ok=lambda st: st[0] != 'D', xexit_ok=lambda st: st[2] != 'X',
                                   edge_delta=edge_delta)
        if cex is None:
            run.ok('%s: after its last direct write (%s) every normal exit is preceded by %s.cache_clear() or works on a resolver '
                   'created in the same call%s' % (f.qual, '; '.join(sorted({w for _, w in sites})), RESOLVER,
                                                   '; so is every exceptional exit after its bulk writes' if has_bulk else ''),
                   f.loc(), sites[0][0])
        else:
            path, st, reason = cex
            last_write = None
            for nid in path:
                if id(cfg.node(nid).ast) in site_ids and cfg.node(nid).kind == 'stmt':
                    last_write = cfg.node(nid)
            cons = last_write.ast if last_write is not None else sites[0][0]
            if reason.startswith('exceptional'):
                how = 'inside a loop that can raise after some of its stores' if kinds.get(id(cons)) == 'loop' \
                    else '- a write that can store some items and then raise -'
                run.fail('%s %s %s and the exception leaves without clearing the '
                         'resolver cache (the clearing must also run on the exceptional exits, e.g. in a finally, or the items must go '
                         'through the overridden single-item methods)' % (f.qual, site_ids.get(id(cons), 'writes the mapping'), how),
                         f, cons, where=f.loc(cons), witness=flow.describe_path(cfg, path),
                         runtime_witness='resolve a type; call %s with a source that yields a new handler for it and then raises; '
                                         'resolve again -> the old handler' % d.name)
            else:
                run.fail('%s %s and can return without clearing the resolver cache' % (f.qual, site_ids.get(id(cons), 'writes the mapping')),
                         f, cons, where=f.loc(cons), witness=flow.describe_path(cfg, path),
                         runtime_witness='resolve a type, change its handler through %s, resolve again -> the old handler' % d.name)
    run.extra['c11_r3_methods'] = n_checked

    # (b) the resolver attribute has exactly one kind of writer: __init__ creating a fresh one
    init = p.func(HANDLERS + '.__init__')
    writers = []
    for f in p.all_functions():
        for n in walk_self(f.node):
            tgts = []
            if isinstance(n, ast.Assign):
                tgts = n.targets
            elif isinstance(n, (ast.AnnAssign, ast.AugAssign)):
                tgts = [n.target] if getattr(n, 'value', None) is not None else []
            elif isinstance(n, ast.Delete):
                tgts = n.targets
            flat = []
            for t in tgts:
                flat.extend(t.elts if isinstance(t, (ast.Tuple, ast.List)) else [t])
            if any(isinstance(t, ast.Attribute) and t.attr == RESOLVER for t in flat):
                writers.append((f, n))
            if isinstance(n, ast.Expr) and isinstance(n.value, ast.Call) and isinstance(n.value.func, ast.Name) and n.value.func.id == 'setattr' \
                    and len(n.value.args) >= 2 and isinstance(n.value.args[1], ast.Constant) and n.value.args[1].value == RESOLVER:
                writers.append((f, n))
    if not any(f is init for f, _ in writers):
        raise AnchorError('%s does not create the resolver' % init.qual)
    for f, n in writers:
        run.check(f is init and _is_fresh_resolver(n), 'the resolver (and its cache) is created per instance, in the constructor only', f, n,
                  runtime_witness='two Handlers objects share one cache: a change of one is resolved stale (or against the wrong mapping) by the other')

    # (c) copy() goes through the constructor
    cp = hc.methods.get('copy')
    if cp is None:
        raise AnchorError('%s.copy not found' % HANDLERS)
    run.use(cp)
    for r in _returns(cp):
        v = r.value
        if isinstance(v, ast.Name):
            binds = _assignments(cp.node, v.id)
            if len(binds) != 1 or binds[0][1] is None:
                raise UnknownIdiom('%s: returned local %s' % (cp.qual, v.id))
            v = binds[0][1]
        verdict = _constructor_call(p, cp, v)
        if verdict is None:
            raise UnknownIdiom('%s returns %s' % (cp.qual, short(r.value, 60)))
        run.check(verdict, 'copy() builds the copy through the constructor (own resolver, own cache)', cp, r,
                  runtime_witness='h2 = h.copy(); h2[t] = x; h._resolve(t, ...) is answered from the shared cache')


def _constructor_call(p, f: Func, v) -> Optional[bool]:
    """True: v is a call of the receiver's class; False: v copies the instance
    without the constructor; None: unknown."""
    if not isinstance(v, ast.Call):
        return None
    fn = _expand_name(f, v.func)

    def is_cls_expr(e):
        if isinstance(e, ast.Call) and isinstance(e.func, ast.Name) and e.func.id == 'type' and len(e.args) == 1 \
                and isinstance(e.args[0], ast.Name) and e.args[0].id == 'self':
            return True
        if isinstance(e, ast.Attribute) and e.attr == '__class__' and isinstance(e.value, ast.Name) and e.value.id == 'self':
            return True
        q = p.resolve_expr(f.module, e, f) if isinstance(e, (ast.Name, ast.Attribute)) else None
        return q == HANDLERS

    if is_cls_expr(fn):
        return True
    q = p.resolve_expr(f.module, fn, f) if isinstance(fn, (ast.Name, ast.Attribute)) else None
    if q in ('copy.copy', 'copy.deepcopy'):
        return False
    if isinstance(fn, ast.Attribute) and fn.attr in ('__copy__', 'copy', '__new__', '__deepcopy__'):
        base = fn.value
        if (isinstance(base, ast.Name) and base.id == 'self') or (isinstance(base, ast.Call) and isinstance(base.func, ast.Name) and base.func.id == 'super'):
            return False
        if fn.attr == '__new__':
            return False
    return None


# ---------------------------------------------------------------------------
# R4 the resolution rule
# ---------------------------------------------------------------------------

def _is_selfdata(e, aliases=frozenset()) -> bool:
    return is_self_attr(e, DATA) or (isinstance(e, ast.Name) and e.id in aliases)


def _data_aliases(res: Func) -> Set[str]:
    """Locals of the resolver that ARE the current mapping: stored exactly once in the resolver's own body, by a plain
    `name = self.data` (so every call reads the mapping of that moment; a binding in the enclosing factory is not
    followed - it could go stale).  `data[mt]` / `tuple(data)` then read like `self.data[mt]` / `tuple(self.data)`."""
    stores: Dict[str, int] = {}
    for n in walk_self(res.node):
        if isinstance(n, ast.Name) and isinstance(n.ctx, (ast.Store, ast.Del)):
            stores[n.id] = stores.get(n.id, 0) + 1
        elif isinstance(n, (ast.Nonlocal, ast.Global)):
            for x in n.names:
                stores[x] = stores.get(x, 0) + 2
    params = set(_param_names(res, skip_self=False))
    out: Set[str] = set()
    for n in walk_self(res.node):
        if isinstance(n, ast.Assign) and len(n.targets) == 1 and isinstance(n.targets[0], ast.Name) and is_self_attr(n.value, DATA):
            name = n.targets[0].id
            if stores.get(name) == 1 and name not in params:
                out.add(name)
    return out


def _mentions_mapping(e, aliases=frozenset()) -> bool:
    """expression derived from the current keys: self.data / self.data.keys() / self / self.keys() ..."""
    for n in walk_self(e):
        if _is_selfdata(n, aliases):
            return True
        if isinstance(n, ast.Name) and n.id == 'self':
            return True
    return False


def _alias_closure(fnode, name: str) -> Set[str]:
    """`name` plus every local that is assigned directly from a name of the closure."""
    out = {name}
    changed = True
    while changed:
        changed = False
        for n in walk_self(fnode):
            if isinstance(n, ast.Assign) and isinstance(n.value, ast.Name) and n.value.id in out:
                for t in n.targets:
                    if isinstance(t, ast.Name) and t.id not in out:
                        out.add(t.id)
                        changed = True
    return out


def _truthiness(expr, truth: bool, is_var) -> Optional[bool]:
    """What `expr == truth` implies for the truthiness of the variable matched
    by `is_var` (None: nothing).  Understands `v`, `not e`, `v is None`,
    `v is not None`, `v == None`, and/or in both polarities (an `or` that is
    true implies a fact only if every disjunct implies it)."""
    if is_var(expr):
        return truth
    if isinstance(expr, ast.UnaryOp) and isinstance(expr.op, ast.Not):
        return _truthiness(expr.operand, not truth, is_var)
    if isinstance(expr, ast.Compare) and len(expr.ops) == 1 and is_var(expr.left) \
            and isinstance(expr.comparators[0], ast.Constant) and expr.comparators[0].value is None:
        op = expr.ops[0]
        if isinstance(op, (ast.Is, ast.Eq)):
            return False if truth else None
        if isinstance(op, (ast.IsNot, ast.NotEq)):
            return None if truth else False
        return None
    if isinstance(expr, ast.BoolOp):
        any_mode = (isinstance(expr.op, ast.And) and truth) or (isinstance(expr.op, ast.Or) and not truth)
        vals = [_truthiness(v, truth, is_var) for v in expr.values]
        if any_mode:
            for v in vals:
                if v is not None:
                    return v
            return None
        if all(v is not None for v in vals) and len(set(vals)) == 1:
            return vals[0]
        return None
    return None


def _guard_verdict(cfg, nid: int, atom, want: bool) -> Tuple[str, Optional[object]]:
    """Is node `nid` dominated by a branch outcome that establishes
    truthiness(atom variable) == want?  'proved' | 'refuted' (only the opposite
    is established) | 'unknown' (a dominating test mentions the variable in a
    shape that cannot be read) | 'absent' (no dominating test mentions it)."""
    seen_unknown = seen_refuted = None
    for n in cfg.live_nodes():
        if n.kind != 'test' or not any(atom(x) for x in walk_self(n.ast)):
            continue
        for (y, l) in cfg.succ[n.id]:
            if l not in ('T', 'F') or not flow.dominated_by_edge(cfg, nid, (n.id, y, l)):
                continue
            r = _truthiness(n.ast, l == 'T', atom)
            if r is want:
                return 'proved', n
            if r is None:
                seen_unknown = n
            else:
                seen_refuted = n
    if seen_unknown is not None:
        return 'unknown', seen_unknown
    if seen_refuted is not None:
        return 'refuted', seen_refuted
    return 'absent', None


UNSUPPORTED = 'falcon.errors.HTTPUnsupportedMediaType'
BRIDGE = 'falcon.media.handlers._best_match'


def _handler_text(h: ast.ExceptHandler) -> str:
    return 'except %s' % unparse(h.type) if h.type is not None else 'except'


def _resolver_escapes(run, p, res: Func, best_calls):
    """E5 summary of the resolver closure (through the module-level bridge
    helper and mediatypes.best_match) must be a subset of
    {HTTPUnsupportedMediaType}.  The candidates handed to best_match() are the
    REGISTERED keys: a key that is not type/subtype makes it raise
    InvalidMediaType, a malformed requested type InvalidMediaRange - both are
    ValueErrors and both have to end as "no match" (-> 415), so catching only
    one of the two classes is a violation.  Any handler set that catches them
    (ValueError, both classes, Exception, a bare except) passes.  A class that
    escapes through the bridge helper is reported there, on the handler
    clauses that let it through (or on the unprotected call); anything else on
    the construct of the resolver it comes from."""
    E = _Escape(p)
    summ = E.summary(res)
    unresolved = sorted(k for k in summ if k.startswith('?'))
    if unresolved:
        raise UnknownIdiom('resolver: raise of %s cannot be resolved to a class' % unresolved[0][1:])
    bad = {k: ch for k, ch in summ.items() if p.is_subclass(k, UNSUPPORTED) is not True}
    blamed: Set[str] = set()
    for c, t in best_calls:
        if t.qual != BRIDGE:
            continue
        run.use(t)
        tp = enclosing_map(t.node)
        inner = [x for x in walk_self(t.node) if isinstance(x, ast.Call) and isinstance(p.resolve_callable(t, x.func), Func)
                 and p.resolve_callable(t, x.func).qual == MEDIATYPES + '.best_match']
        ic = single(inner, 'call of mediatypes.best_match', t.qual)
        raised = E.summary(p.resolve_callable(t, ic.func))
        through = {k: ch for k, ch in E.summary(t).items() if k in bad}
        blamed |= set(through)
        # the handler clauses around the call (innermost try first)
        clauses, cur, child = [], tp.get(id(ic)), ic
        while cur is not None and cur is not t.node:
            if isinstance(cur, ast.Try) and any(child is s or _contains(s, child) for s in cur.body):
                clauses += cur.handlers
            child, cur = cur, tp.get(id(cur))
        construct = ' / '.join(_handler_text(h) for h in clauses) if clauses else ic
        what = '%s() turns every value error of mediatypes.best_match() - InvalidMediaType for a malformed registered key, ' \
               'InvalidMediaRange for a malformed requested type, both ValueErrors - into "no match", so that the resolver answers ' \
               'with a handler or a 415 (best_match() may raise: %s)' % (t.name, ', '.join(k.rsplit('.', 1)[-1] for k in sorted(raised)) or 'nothing')
        if not through:
            run.ok(what, t.loc(clauses[0] if clauses else ic), construct)
            continue
        wit = []
        for k, ch in sorted(through.items()):
            wit += ['%s escapes:' % k] + _chain(ch)
        run.fail(what, t, construct, where=t.loc(clauses[0] if clauses else ic), witness=wit,
                 runtime_witness="handlers.update({'yaml': h}) (a key without '/'), then a request whose Content-Type is not an exact key "
                                 "('application/json; charset=utf-8'): %s leaves _resolve() and the request answers 500 instead of 415"
                                 % ' / '.join(k.rsplit('.', 1)[-1] for k in sorted(through)))
    rest = {k: ch for k, ch in bad.items() if k not in blamed}
    if not bad:
        run.ok('resolver: only HTTPUnsupportedMediaType leaves the resolver (E5 summary: %s)' % (sorted(summ) or 'nothing'), res.loc())
    for k, ch in sorted(rest.items()):
        where, text = ch[0]
        run.fail('resolver: %s may leave the resolver - the answer is a handler or a 415' % k, res, text.split('  [')[0], where=where,
                 witness=_chain(ch), runtime_witness='a request with that content type answers 500 instead of 415')
    run.extra['c11_resolver_escape'] = {'summary': sorted(summ), 'sites': E.sites_seen, 'calls_resolved': E.calls_resolved}


# R4 (a), the EFFECTIVE type of each lookup (rewritten after seeded change s7-c11-1).  The resolver consults the mapping
# twice - the exact lookup and the best-match negotiation - and both have to be asked about the same text: the default when
# the requested type is missing or '*/*', the requested type itself otherwise.  Which text each of them receives is decided
# by running the resolver's own statements on the finite domain requested in {None, '', '*/*', 'a/b'} with a marker for the
# default (_EffectiveTypes): locals bound from the two parameters (`effective = default if ... else media_type`,
# `media_type = media_type or default`, partition / slice re-assemblies) are evaluated, branch tests that can be evaluated
# prune the paths, everything else is followed both ways.  Letter case is not this clause's business (R9): case folds are
# the identity here.
_REQ_DOMAIN = (None, '', '*/*', 'a/b')
_DEFAULT_MARK = 'default/type'
_STR_METHODS = ('partition', 'rpartition', 'split', 'rsplit', 'strip', 'lstrip', 'rstrip', 'startswith', 'endswith', 'join', 'format',
                'replace', 'find', 'index', 'count', 'removeprefix', 'removesuffix')


class _NoValue(Exception):
    pass


class _EffectiveTypes:
    """A concrete interpreter of the string-valued locals of one function over its CFG."""

    UNDECIDED = '<undecided test>'             # pseudo-local: a test that READS a tracked text could not be evaluated on this path

    def __init__(self, cfg, observe: Dict[int, ast.AST], project=None, func: Optional[Func] = None):
        self.cfg = cfg
        self.observe = observe                 # node id -> expression whose value is recorded on entry to the node
        self.seen: Dict[int, list] = {}        # node id -> [(label, value | _NoValue instance, path)]
        self.tainted: Dict[int, list] = {}     # node id -> [(label, text of the undecided test)] for observations on such paths
        self.p, self.f = project, func

    def ev(self, e, env: dict):
        e = _unwrap_cast(e)
        if isinstance(e, ast.Constant):
            return e.value
        if isinstance(e, ast.Name):
            if e.id in env:
                return env[e.id]
            v = _module_literal(self.p, self.f, e) if self.f is not None else UNKNOWN      # _ANY = '*/*' at module level
            if v is not UNKNOWN:
                return v
            raise _NoValue(e.id)
        if isinstance(e, ast.Attribute) and self.f is not None:
            v = _module_literal(self.p, self.f, e)
            if v is not UNKNOWN:
                return v
        if isinstance(e, ast.NamedExpr) and isinstance(e.target, ast.Name):
            try:
                v = self.ev(e.value, env)
            except _NoValue:
                env.pop(e.target.id, None)
                raise
            env[e.target.id] = v
            return v
        if isinstance(e, ast.BoolOp):
            v = None
            for x in e.values:
                v = self.ev(x, env)
                if isinstance(e.op, ast.Or) and v:
                    return v
                if isinstance(e.op, ast.And) and not v:
                    return v
            return v
        if isinstance(e, ast.UnaryOp) and isinstance(e.op, ast.Not):
            return not self.ev(e.operand, env)
        if isinstance(e, ast.IfExp):
            return self.ev(e.body if self.ev(e.test, env) else e.orelse, env)
        if isinstance(e, ast.Compare):
            left = self.ev(e.left, env)
            for op, c in zip(e.ops, e.comparators):
                right = self.ev(c, env)
                try:
                    if isinstance(op, ast.Eq):
                        r = left == right
                    elif isinstance(op, ast.NotEq):
                        r = left != right
                    elif isinstance(op, ast.Is):
                        r = left is right if (left is None or right is None) else left == right
                    elif isinstance(op, ast.IsNot):
                        r = left is not right if (left is None or right is None) else left != right
                    elif isinstance(op, ast.In):
                        r = left in right
                    elif isinstance(op, ast.NotIn):
                        r = left not in right
                    else:
                        raise _NoValue(unparse(e))
                except TypeError:
                    raise _NoValue(unparse(e))
                if not r:
                    return False
                left = right
            return True
        if isinstance(e, (ast.Tuple, ast.List, ast.Set)) and not any(isinstance(x, ast.Starred) for x in e.elts):
            vals = [self.ev(x, env) for x in e.elts]
            return tuple(vals) if not isinstance(e, ast.Set) else frozenset(vals)
        if isinstance(e, ast.BinOp) and isinstance(e.op, ast.Add):
            l, r = self.ev(e.left, env), self.ev(e.right, env)
            if isinstance(l, str) and isinstance(r, str):
                return l + r
            raise _NoValue(unparse(e))
        if isinstance(e, ast.JoinedStr):
            out = ''
            for v in e.values:
                if isinstance(v, ast.Constant):
                    out += str(v.value)
                elif isinstance(v, ast.FormattedValue) and v.conversion == -1 and v.format_spec is None:
                    x = self.ev(v.value, env)
                    if not isinstance(x, str):
                        raise _NoValue(unparse(e))
                    out += x
                else:
                    raise _NoValue(unparse(e))
            return out
        if isinstance(e, ast.Subscript) and isinstance(e.ctx, ast.Load):
            base = self.ev(e.value, env)
            if not isinstance(base, (str, tuple)):
                raise _NoValue(unparse(e))
            try:
                if isinstance(e.slice, ast.Slice):
                    lo, hi, st = [None if x is None else self.ev(x, env) for x in (e.slice.lower, e.slice.upper, e.slice.step)]
                    return base[lo:hi:st]
                return base[self.ev(e.slice, env)]
            except (TypeError, IndexError, ValueError):
                raise _NoValue(unparse(e))
        if isinstance(e, ast.Call) and isinstance(e.func, ast.Name) and e.func.id in ('str', 'len', 'bool') and len(e.args) == 1 and not e.keywords:
            v = self.ev(e.args[0], env)
            if e.func.id == 'str':
                if isinstance(v, str):
                    return v
                raise _NoValue(unparse(e))          # str(None) is the text 'None': not a type anybody means
            if e.func.id == 'bool':
                return bool(v)
            if isinstance(v, (str, tuple)):
                return len(v)
            raise _NoValue(unparse(e))
        if isinstance(e, ast.Call) and isinstance(e.func, ast.Attribute) and not e.keywords:
            if isinstance(e.func.value, ast.Name) and e.func.value.id == 'str' and 'str' not in env and e.func.attr in CASE_FOLDS and len(e.args) == 1:
                v = self.ev(e.args[0], env)
                if isinstance(v, str):
                    return v
                raise _NoValue(unparse(e))
            recv = self.ev(e.func.value, env)
            if not isinstance(recv, str):
                raise _NoValue(unparse(e))          # None.lower(): the statement raises, no value
            if e.func.attr in CASE_FOLDS and not e.args:
                return recv                         # letter case: R9
            if e.func.attr in _STR_METHODS:
                args = [self.ev(a, env) for a in e.args]
                try:
                    v = getattr(recv, e.func.attr)(*args)
                except Exception:
                    raise _NoValue(unparse(e))
                return tuple(v) if isinstance(v, list) else v
        raise _NoValue(unparse(e))

    def _bind(self, target, value, env):
        if isinstance(target, ast.Name):
            env[target.id] = value
        elif isinstance(target, (ast.Tuple, ast.List)) and isinstance(value, tuple) and len(value) == len(target.elts) \
                and not any(isinstance(t, ast.Starred) for t in target.elts):
            for t, v in zip(target.elts, value):
                self._bind(t, v, env)
        else:
            self._unbind(target, env)

    @staticmethod
    def _unbind(node, env):
        for x in ast.walk(node):
            if isinstance(x, ast.Name) and isinstance(x.ctx, ast.Store):
                env.pop(x.id, None)

    def run(self, label, init: dict, limit=20000):
        cfg = self.cfg
        start = (cfg.entry, tuple(sorted(init.items(), key=lambda kv: kv[0])))
        stack = [(start, (cfg.entry,))]
        visited = {start}
        while stack:
            (nid, envt), path = stack.pop()
            if len(visited) > limit:
                raise UnknownIdiom('resolver: too many states while evaluating the effective media type')
            n = cfg.node(nid)
            env = dict(envt)
            if nid in self.observe:
                try:
                    got = self.ev(self.observe[nid], dict(env))
                except _NoValue as ex:
                    got = ex
                self.seen.setdefault(nid, []).append((label, got, path))
                if self.UNDECIDED in env:
                    self.tainted.setdefault(nid, []).append((label, env[self.UNDECIDED]))
            before = dict(env)
            outcome = None
            if n.kind == 'test':
                try:
                    outcome = bool(self.ev(n.ast, env))
                except _NoValue:
                    outcome = None
                    for x in n.walk():
                        if isinstance(x, ast.NamedExpr):
                            self._unbind(x.target, env)
                    # both ways are followed; when the test reads one of the tracked texts the two arms are NOT both
                    # feasible for this requested type: what is observed behind it is not a verdict
                    if any(isinstance(x, ast.Name) and isinstance(x.ctx, ast.Load) and x.id in before and x.id != self.UNDECIDED
                           for x in n.walk()):
                        env[self.UNDECIDED] = before[self.UNDECIDED] = before.get(self.UNDECIDED) or short(n.ast, 60)
            elif n.kind == 'stmt' and isinstance(n.ast, ast.Assign):
                try:
                    v = self.ev(n.ast.value, env)
                except _NoValue:
                    for t in n.ast.targets:
                        self._unbind(t, env)
                else:
                    for t in n.ast.targets:
                        self._bind(t, v, env)
            elif n.kind == 'stmt' and isinstance(n.ast, ast.AnnAssign) and n.ast.value is not None:
                try:
                    self._bind(n.ast.target, self.ev(n.ast.value, env), env)
                except _NoValue:
                    self._unbind(n.ast.target, env)
            elif n.kind in ('stmt', 'iter', 'with', 'handler'):
                a = n.ast
                if n.kind == 'handler':
                    if getattr(a, 'name', None):
                        env.pop(a.name, None)
                elif a is not None:
                    for x in n.walk():
                        if isinstance(x, ast.Name) and isinstance(x.ctx, (ast.Store, ast.Del)):
                            env.pop(x.id, None)
            for (y, l) in cfg.succ[nid]:
                if outcome is not None and l in ('T', 'F') and (l == 'T') != outcome:
                    continue
                e2 = before if l == 'exc' else env
                st = (y, tuple(sorted(e2.items(), key=lambda kv: kv[0])))
                if st not in visited:
                    visited.add(st)
                    stack.append((st, path + (y,)))


def _show_type(v) -> str:
    return 'the default' if v == _DEFAULT_MARK else 'the requested type' if v == 'a/b' else repr(v)


def _pure_selection(e, names: Set[str]) -> bool:
    """`e` hands out one of `names` verbatim: a name, `a or b` / `a and b`, a conditional expression of such"""
    e = _unwrap_cast(e)
    if isinstance(e, ast.Name):
        return e.id in names
    if isinstance(e, ast.BoolOp):
        return all(_pure_selection(v, names) for v in e.values)
    if isinstance(e, ast.IfExp):
        return _pure_selection(e.body, names) and _pure_selection(e.orelse, names)
    return False


def _derived_closure_of(fnode, seeds: Set[str]) -> Set[str]:
    out = set(seeds)
    changed = True
    binds = list(_bindings_from(fnode))
    while changed:
        changed = False
        for tgts, v in binds:
            if not tgts <= out and _text_derived(v, out):
                out |= tgts
                changed = True
    return out


def r4_resolution(run):
    p = run.project
    cr = p.func(HANDLERS + '._create_resolver')
    res = single(list(cr.nested.values()), 'nested resolver function', cr.qual)
    cfg = cfg_of(res, p)
    run.use_cfg(cfg)
    params = _param_names(res, skip_self=False)
    if len(params) != 3:
        raise UnknownIdiom('resolver takes %s' % params)
    mt, dflt, rnf = params
    dal = _data_aliases(res)           # `data = self.data` bound once inside the resolver
    # the requested type, the default, and the locals bound to text built from them (never the RESULT of a call that
    # receives them: what best-match answers is not the requested type)
    tnames = _derived_closure_of(res.node, {mt, dflt})
    for tgts, v in _bindings_from(res.node):
        if not _text_derived(v, tnames):
            tnames -= (tgts - {mt, dflt})       # a local that is ALSO bound to something else (a best-match answer) is not the type

    def is_mt(e):
        e = _unwrap_cast(e)
        return not isinstance(e, ast.Constant) and _text_derived(e, tnames)

    # exact lookups of the requested type and best-match calls
    def exact_lookup(n):
        for x in n.walk():
            if isinstance(x, ast.Subscript) and isinstance(x.ctx, ast.Load) and _is_selfdata(x.value, dal) and is_mt(x.slice):
                return x
            if isinstance(x, ast.Call) and isinstance(x.func, ast.Attribute) and x.func.attr == 'get' and _is_selfdata(x.func.value, dal) \
                    and x.args and is_mt(x.args[0]):
                return x
        return None

    def lookup_key(x):
        return x.slice if isinstance(x, ast.Subscript) else x.args[0]

    def best_call(n):
        for c in n.calls():
            t = p.resolve_callable(res, c.func)
            if isinstance(t, Func) and t.qual in ('falcon.media.handlers._best_match', MEDIATYPES + '.best_match'):
                return c, t
        return None

    L = [n for n in cfg.live_nodes() if n.kind != 'handler' and exact_lookup(n) is not None]
    B = [n for n in cfg.live_nodes() if n.kind != 'handler' and best_call(n) is not None]
    if not L:
        raise AnchorError('resolver: exact lookup self.data[<media type>] not found')
    if not B:
        raise AnchorError('resolver: best-match call not found')

    # (e) "the designated handler or a 415": nothing but HTTPUnsupportedMediaType leaves the resolver
    _resolver_escapes(run, p, res, [best_call(b) for b in B])

    # (a) both lookups are asked about the EFFECTIVE type: the default for a missing or '*/*' requested type, the requested
    #     type otherwise - decided by evaluating the key expression of each lookup on the finite domain
    observe: Dict[int, ast.AST] = {}
    for n in L:
        observe[n.id] = lookup_key(exact_lookup(n))
    for n in B:
        c, _t = best_call(n)
        wanted = [a for a in list(c.args) + [k.value for k in c.keywords] if not _mentions_mapping(a, dal) and is_mt(a)]
        if len(wanted) != 1 or n.id in observe:
            raise UnknownIdiom('resolver: best-match call %s' % short(c, 100))
        observe[n.id] = wanted[0]
    interp = _EffectiveTypes(cfg, observe, p, res)
    for req in _REQ_DOMAIN:
        interp.run(req, {mt: req, dflt: _DEFAULT_MARK})
    for n in L + B:
        kind = 'exact lookup' if n in L else 'best-match negotiation'
        got = interp.seen.get(n.id, [])
        if not got:
            raise UnknownIdiom('resolver: the %s %s is not reached for any requested type' % (kind, n.text()))
        unread = [(req, v) for (req, v, _p) in got if isinstance(v, _NoValue)]
        if unread:
            raise UnknownIdiom('resolver: media type handed to the %s cannot be evaluated for requested type %r: %s' % (
                kind, unread[0][0], short(observe[n.id], 60)))
        wrong = [(req, v, pth) for (req, v, pth) in got if v != (req if req == 'a/b' else _DEFAULT_MARK)]
        if wrong and interp.tainted.get(n.id):
            raise UnknownIdiom('resolver: the test %s reads the requested type and cannot be evaluated for requested type %r' % (
                interp.tainted[n.id][0][1], interp.tainted[n.id][0][0]))
        table = sorted({'requested %r -> %s' % (req, _show_type(v)) for (req, v, _p) in got})
        what = "resolver: the %s is asked about the default when the requested type is missing or '*/*', and about the requested " \
               'type itself otherwise (the same effective type for both lookups)' % kind
        if not wrong:
            run.ok(what + ' [%s]' % '; '.join(table), res.loc(n.ast), n.ast)
            continue
        req, v, pth = wrong[0]
        run.fail(what, res, n.ast, where='%s:%s' % (res.file, n.lineno),
                 witness=['evaluated %s: %s' % (short(observe[n.id], 60), '; '.join(table))] + flow.describe_path(cfg, pth),
                 runtime_witness="_resolve(%r, default): the %s sees %s - with a default type that is not registered verbatim "
                                 "('application/json; charset=UTF-8') a '*/*' body goes to whichever registered handler negotiates "
                                 "best against '*/*' (the first one) instead of the default type's handler or a 415" % (req, kind, _show_type(v)))

    # (b) exact hit first
    l_ids = [n.id for n in L]
    hvars = set()
    for n in L:
        if n.kind == 'stmt' and isinstance(n.ast, ast.Assign) and len(n.ast.targets) == 1 and isinstance(n.ast.targets[0], ast.Name):
            hvars.add(n.ast.targets[0].id)
        else:
            raise UnknownIdiom('resolver: exact lookup is not a plain assignment: %s' % n.text())
    hv = single(sorted(hvars), 'handler variable of the exact lookup', res.qual)

    haliases = _alias_closure(res.node, hv)

    def is_h(e):
        return isinstance(e, ast.Name) and e.id in haliases

    key_handlers = set()
    for n in L:
        for (y, l) in cfg.succ[n.id]:
            if l == 'exc' and cfg.node(y).kind == 'handler':
                key_handlers.add(y)
    for b in B:
        run.check(flow.dominated_by_nodes(cfg, b.id, l_ids), 'resolver: the exact lookup precedes best-match negotiation', res, b.ast,
                  where='%s:%s' % (res.file, b.lineno))
        verdict, tn = _guard_verdict(cfg, b.id, is_h, False)
        if verdict != 'proved' and key_handlers and flow.dominated_by_nodes(cfg, b.id, key_handlers):
            verdict = 'proved'
        if verdict == 'unknown':
            raise UnknownIdiom('resolver: test %s guarding best-match negotiation' % short(tn.ast, 80))
        run.check(verdict == 'proved',
                  'resolver: best-match negotiation runs only when the exact lookup produced no handler', res, b.ast,
                  where='%s:%s' % (res.file, b.lineno),
                  runtime_witness='a registered exact type is overridden by a better-scoring wildcard-compatible key')

    # (c) best match over the current keys, candidates/header in the right slots
    mvars = set()
    for b in B:
        c, t = best_call(b)
        roles = []
        for a in c.args:
            if _mentions_mapping(a, dal):
                roles.append('keys')
            elif is_mt(a):
                roles.append('wanted')
            else:
                roles.append('?')
        if c.keywords or sorted(roles) != ['keys', 'wanted']:
            raise UnknownIdiom('resolver: best-match call %s' % short(c, 100))
        if t.qual == MEDIATYPES + '.best_match':
            run.check(roles == ['keys', 'wanted'], 'resolver: best_match(candidates=current keys, header=requested type)', res, c)
        else:
            run.ok('resolver: %s receives the requested type and the current keys of the mapping' % t.name, res.loc(c), c)
            tp = _param_names(t)
            if len(tp) != 2:
                raise UnknownIdiom('%s takes %s' % (t.qual, tp))
            want = {tp[roles.index('keys')]: 0, tp[roles.index('wanted')]: 1}
            inner = [x for x in walk_self(t.node) if isinstance(x, ast.Call) and isinstance(p.resolve_callable(t, x.func), Func)
                     and p.resolve_callable(t, x.func).qual == MEDIATYPES + '.best_match']
            ic = single(inner, 'call of mediatypes.best_match', t.qual)
            run.use(t)
            got = {}
            for i, a in enumerate(ic.args):
                if isinstance(a, ast.Name):
                    got[a.id] = i
            for k in ic.keywords:
                if isinstance(k.value, ast.Name) and k.arg in ('media_types', 'header'):
                    got[k.value.id] = 0 if k.arg == 'media_types' else 1
            if set(got) != set(want):
                raise UnknownIdiom('%s: arguments of %s' % (t.qual, short(ic, 80)))
            run.check(got == want, '%s: the mapping keys are the candidates and the requested type is the header of best_match()' % t.name,
                      t, ic, runtime_witness='the requested type is matched as a candidate against the keys read as Accept ranges')
            # its ValueError fallback must not produce a truthy match
            tcfg = cfg_of(t, p)
            run.use_cfg(tcfg)
        if b.kind == 'stmt' and isinstance(b.ast, ast.Assign) and len(b.ast.targets) == 1 and isinstance(b.ast.targets[0], ast.Name):
            mvars.add(b.ast.targets[0].id)
        else:
            raise UnknownIdiom('resolver: best-match result is not bound to a local: %s' % b.text())
    mv = single(sorted(mvars), 'matched-type variable', res.qual)

    def is_m(e):
        return isinstance(e, ast.Name) and e.id == mv

    def is_rnf(e):
        return isinstance(e, ast.Name) and e.id == rnf

    # (d) 415 iff no match and raise_not_found
    raises = []
    for n in cfg.live_nodes():
        if n.kind == 'stmt' and isinstance(n.ast, ast.Raise) and n.ast.exc is not None:
            e = n.ast.exc.func if isinstance(n.ast.exc, ast.Call) else n.ast.exc
            q = p.resolve_expr(res.module, e, res)
            if q == 'falcon.errors.HTTPUnsupportedMediaType':
                raises.append(n)
            else:
                raise UnknownIdiom('resolver raises %s' % short(e, 60))
    if not raises:
        raise AnchorError('resolver: raise of HTTPUnsupportedMediaType not found')
    nomatch_edges, rnf_true_edges = [], []
    for n in cfg.live_nodes():
        if n.kind == 'test':
            for (y, l) in cfg.succ[n.id]:
                if l in ('T', 'F'):
                    if _truthiness(n.ast, l == 'T', is_m) is False:
                        nomatch_edges.append((n.id, y, l))
                    if _truthiness(n.ast, l == 'T', is_rnf) is True:
                        rnf_true_edges.append((n.id, y, l))
    if not nomatch_edges:
        raise UnknownIdiom('resolver: no test of the best-match result')
    for r in raises:
        v1, t1 = _guard_verdict(cfg, r.id, is_m, False)
        v2, t2 = _guard_verdict(cfg, r.id, is_rnf, True)
        for v, t in ((v1, t1), (v2, t2)):
            if v == 'unknown':
                raise UnknownIdiom('resolver: test %s guarding the 415' % short(t.ast, 80))
        run.check(v1 == 'proved',
                  'resolver: 415 is raised only when neither the exact lookup nor best-match found a handler', res, r.ast,
                  where='%s:%s' % (res.file, r.lineno))
        run.check(v2 == 'proved',
                  'resolver: 415 is raised only when raise_not_found is set', res, r.ast, where='%s:%s' % (res.file, r.lineno),
                  runtime_witness='_resolve(unknown, default, False) raises instead of returning (None, None, None)')
    none_returns = set()
    for n in cfg.live_nodes():
        if n.kind == 'stmt' and isinstance(n.ast, ast.Return):
            v = _lit(p, res, n.ast.value) if n.ast.value is not None else None      # `return _UNRESOLVED` (module-level `(None, None, None)`)
            if isinstance(v, ast.Tuple) and v.elts and all(isinstance(e, ast.Constant) and e.value is None for e in v.elts):
                none_returns.add(n.id)
    for e in nomatch_edges:
        # after "no match": only raise or the all-None answer
        path = flow.find_path(cfg, [e[1]], [cfg.exit], avoid_nodes=none_returns, edge_filter=flow.no_exc)
        run.check(path is None, 'resolver: without a match the answer is 415 or (None, None, None), never a handler', res, cfg.node(e[0]).ast,
                  where='%s:%s' % (res.file, cfg.node(e[0]).lineno), witness=flow.describe_path(cfg, path) if path else None)
        for r2 in rnf_true_edges:
            if r2[0] in flow.reachable(cfg, [e[1]], edge_filter=flow.no_exc):
                path = flow.find_path(cfg, [r2[1]], [cfg.exit], edge_filter=flow.no_exc)
                run.check(path is None, 'resolver: no match with raise_not_found set always raises 415', res, cfg.node(r2[0]).ast,
                          where='%s:%s' % (res.file, cfg.node(r2[0]).lineno), witness=flow.describe_path(cfg, path) if path else None,
                          runtime_witness='_resolve(unknown, default) returns (None, None, None); callers then call None.deserialize')
    # the class is a 415
    ec = p.cls('falcon.errors.HTTPUnsupportedMediaType')
    init = p.lookup_method(ec.qual, '__init__')
    status = None
    if init is not None:
        for c in walk_self(init.node):
            if isinstance(c, ast.Call) and isinstance(c.func, ast.Attribute) and c.func.attr == '__init__' and c.args:
                status = p.fold(init.module, c.args[0], None, init)
    if not isinstance(status, str):
        raise UnknownIdiom('HTTPUnsupportedMediaType: status does not fold')
    run.check(status.startswith('415'), 'HTTPUnsupportedMediaType carries status 415', ec.qual, 'status %s' % status, where=ec.loc())


def _safe(fn):
    """Unexpected shapes must surface as an unknown idiom (exit 2), never as a traceback."""
    def wrapped(run):
        try:
            return fn(run)
        except AnalysisError:
            raise
        except RecursionError:
            raise UnknownIdiom('%s: recursion limit reached' % fn.__name__)
        except Exception as e:  # noqa: BLE001
            raise UnknownIdiom('%s: construct of an unexpected shape (%s: %s)' % (fn.__name__, type(e).__name__, e))
    wrapped.__name__ = fn.__name__
    return wrapped


# ---------------------------------------------------------------------------
# R6 memoised parsing helpers hand out values nobody mutates (added in the
# build round; shares its purpose with C19 R3)
# ---------------------------------------------------------------------------

_R6_MUTATORS = ('pop', 'popitem', 'clear', 'update', 'setdefault', 'append', 'extend', 'insert', 'remove', 'sort', 'reverse',
                'add', 'discard', '__setitem__', '__delitem__')


def r6_memo_results_immutable(run):
    """quality()/best_match() are pure functions of their two strings only if
    every memoised helper below them keeps returning the same *value*: an
    object handed out by an lru_cache is shared by all later calls with that
    key, so a caller that mutates it (params.pop('q')) changes what the next
    call computes.  W: a range with a quoted parameter and a q parsed twice
    under different cache keys scores q=1.0 the second time."""
    p = run.project
    mod = p.module('falcon.util.mediatypes')
    funcs = [f for f in p.all_functions('falcon.util.mediatypes.')]
    by_qual = {f.qual: f for f in funcs}
    cached: Set[str] = set()
    for f in funcs:
        for d in f.node.decorator_list:
            dq = p.resolve_expr(mod, d.func if isinstance(d, ast.Call) else d, None)
            if dq in ('functools.lru_cache', 'functools.cache'):
                cached.add(f.qual)
    alias_of: Dict[str, str] = {}
    for name, val in mod.consts.items():
        if isinstance(val, ast.Call) and p.resolve_expr(mod, val.func, None) in ('functools.lru_cache', 'functools.cache') and val.args:
            t = p.resolve_callable(_ModFunc(mod), val.args[0])
            if isinstance(t, Func):
                cached.add(t.qual)
                alias_of[mod.name + '.' + name] = t.qual
    if len(cached) < 3:
        raise AnchorError('memoised helpers of falcon.util.mediatypes not found (%d)' % len(cached))

    def callee_qual(f, call):
        t = p.resolve_callable(f, call.func)
        if isinstance(t, Func):
            return t.qual
        if isinstance(t, str):
            return alias_of.get(t)
        q = p.resolve_expr(f.module, call.func, f)
        return alias_of.get(q) if q else None

    # T: functions whose return value may be (or contain) an object held by a cache
    def tainted_names(f, T):
        out: Set[str] = set()
        for n in walk_self(f.node):
            if isinstance(n, ast.Assign) and isinstance(n.value, ast.Call) and callee_qual(f, n.value) in T:
                for t in n.targets:
                    for x in ast.walk(t):
                        if isinstance(x, ast.Name):
                            out.add(x.id)
        return out

    T = set(cached)
    changed = True
    while changed:
        changed = False
        for f in funcs:
            if f.qual in T:
                continue
            tn = tainted_names(f, T)
            for r in walk_self(f.node):
                if not (isinstance(r, ast.Return) and r.value is not None):
                    continue
                hit = any((isinstance(x, ast.Call) and callee_qual(f, x) in T) or (isinstance(x, ast.Name) and x.id in tn)
                          for x in ast.walk(r.value))
                if hit:
                    T.add(f.qual)
                    changed = True
                    break
    n_sites = 0
    for f in funcs:
        tainted: Set[str] = set()
        for n in walk_self(f.node):
            if isinstance(n, ast.Assign) and isinstance(n.value, ast.Call) and callee_qual(f, n.value) in T:
                for t in n.targets:
                    for x in ast.walk(t):
                        if isinstance(x, ast.Name):
                            tainted.add(x.id)
                n_sites += 1
        if not tainted:
            continue
        bad = None
        for n in walk_self(f.node):
            if isinstance(n, ast.Call) and isinstance(n.func, ast.Attribute) and n.func.attr in _R6_MUTATORS \
                    and isinstance(n.func.value, ast.Name) and n.func.value.id in tainted:
                bad = n
            elif isinstance(n, (ast.Assign, ast.AugAssign, ast.Delete)):
                tg = n.targets if isinstance(n, (ast.Assign, ast.Delete)) else [n.target]
                for t in tg:
                    if isinstance(t, (ast.Subscript, ast.Attribute)) and isinstance(t.value, ast.Name) and t.value.id in tainted:
                        bad = n
            if bad is not None:
                break
        run.check(bad is None, 'objects obtained from a memoised parsing helper are not mutated by %s' % f.name, f,
                  bad if bad is not None else 'no mutation of %s' % ', '.join(sorted(tainted)), where=f.loc(bad),
                  runtime_witness='parse "text/plain;charset=\"utf-8\";q=0" twice under different Accept headers: the second parse sees no q (q=1.0)')
    if n_sites < 1:
        # today's tree binds such results in at least _MediaRange.parse / quality / best_match
        raise AnchorError('no call site binding the result of a memoised helper found')


# ---------------------------------------------------------------------------
# R7 the resolver is asked about the content type itself (added after seeded
# change s3-c11-3: WSGI get_media() resolved by the bare type, ASGI did not)
# ---------------------------------------------------------------------------

R7_SITES = (
    ('request', 'falcon.request.Request.get_media', 'falcon.asgi.request.Request.get_media'),
    ('response', 'falcon.response.Response.render_body', 'falcon.asgi.response.Response.render_body'),
)
CONTENT_TYPE = 'content_type'
DEFAULT_ATTR = 'default_media_type'
HANDLERS_ATTR = 'media_handlers'

# Frozen table: str methods whose result is no longer the content type as it was received.  The parameters are part of
# what the matching rule looks at (criteria 3 and 4, and "a shared parameter with another value does not match"), so a
# handler resolved from the result is not the one the mapping designates for the content type.  (strip()/lstrip()/
# rstrip() on the content type itself are NOT in the table: the matcher ignores outer whitespace - unknown idiom.)
CT_TRANSFORMS = {
    'partition': 'cuts at a separator (drops the parameters)',
    'rpartition': 'cuts at a separator',
    'split': 'cuts at a separator (drops the parameters)',
    'rsplit': 'cuts at a separator',
    'lower': 'changes the case of parameter values',
    'upper': 'changes the case of parameter values',
    'casefold': 'changes the case of parameter values',
    'title': 'changes the case',
    'capitalize': 'changes the case',
    'swapcase': 'changes the case',
    'replace': 'rewrites the value',
    'translate': 'rewrites the value',
    'removeprefix': 'drops a part',
    'removesuffix': 'drops a part',
}
# falcon helpers that split a header value into (bare value, parameters)
CT_SPLITTERS = {MEDIATYPES + '.parse_header': 'splits off the parameters'}


class _CtArg:
    """Classification of an argument expression relative to `<self>.content_type`:
    exact       the attribute read itself, or a local bound only to that
    fallback    the content type or else a constant (`ct or ''`) - only understood as the receiver of a transform
    transformed derived from the content type through CT_TRANSFORMS / CT_SPLITTERS / subscripting
    const       folds to a constant
    unknown     anything else"""

    def __init__(self, p, f: Func, call: ast.Call):
        self.p, self.f = p, f
        a = f.node.args
        pos = a.posonlyargs + a.args
        if not pos:
            raise UnknownIdiom('%s takes no self' % f.qual)
        self.selfname = pos[0].arg
        self.how: List[str] = []
        self.call = call
        self.prior: Dict[str, str] = {}

    def _rebound(self, name: str, binds, d) -> str:
        """A local with several bindings (`ct = self.content_type` ... `if ct: ct = ct.lower()`): the bindings that can
        reach the resolver call without being overwritten decide; a binding in terms of the name itself is read
        against the kind of the plain ones."""
        def mentions(v):
            return any(isinstance(x, ast.Name) and x.id == name for x in ast.walk(v))
        base = {self.classify(v, d) for _, v in binds if not mentions(v)}
        if len(base) != 1 or not base <= {'exact', 'transformed'}:
            return 'unknown'
        self.prior[name] = base.pop()
        try:
            cfg = cfg_of(self.f, self.p)
            goal = [n.id for n in cfg.live_nodes() if any(x is self.call for x in n.walk())]
            if not goal:
                return 'unknown'
            bnodes = {id(s): [nid for nid in cfg.nodes_for(s)] for s, _ in binds}
            kinds = set()
            for s, v in binds:
                others = {nid for s2, _ in binds if s2 is not s for nid in bnodes[id(s2)]}
                starts = [y for nid in bnodes[id(s)] for (y, l) in cfg.succ[nid] if l != 'exc']
                if bnodes[id(s)] and flow.find_path(cfg, starts, goal, avoid_nodes=others) is not None:
                    kinds.add(self.classify(v, d))
        finally:
            del self.prior[name]
        if kinds == {'exact'}:
            return 'exact'
        if 'transformed' in kinds and kinds <= {'exact', 'transformed'}:
            return 'transformed'
        return 'unknown'

    def classify(self, e, depth=0) -> str:
        if depth > 12:
            return 'unknown'
        e = _unwrap_cast(e)
        d = depth + 1
        if isinstance(e, ast.Attribute) and e.attr == CONTENT_TYPE and isinstance(e.value, ast.Name) and e.value.id == self.selfname:
            return 'exact'
        if isinstance(e, ast.Name):
            binds = _assignments(self.f.node, e.id)
            if not binds:
                v = self.p.fold(self.f.module, e, None, self.f)
                return 'const' if v is not UNKNOWN else 'unknown'
            if any(v is None for _, v in binds):
                return 'unknown'
            if e.id in self.prior:
                return self.prior[e.id]
            if len(binds) == 1:
                return self.classify(binds[0][1], d)
            return self._rebound(e.id, binds, d)
        if isinstance(e, ast.Constant):
            return 'const'
        if isinstance(e, (ast.BoolOp, ast.IfExp)):
            parts = e.values if isinstance(e, ast.BoolOp) else [e.body, e.orelse]
            kinds = {self.classify(x, d) for x in parts}
            if 'transformed' in kinds and kinds <= {'transformed', 'exact', 'fallback', 'const'}:
                return 'transformed'
            if kinds == {'exact'}:
                return 'exact'
            if 'exact' in kinds and kinds <= {'exact', 'fallback', 'const'}:
                return 'fallback'
            return 'const' if kinds == {'const'} else 'unknown'
        if isinstance(e, ast.Subscript):
            k = self.classify(e.value, d)
            if k in ('exact', 'fallback', 'transformed'):
                if k != 'transformed':
                    self.how.append('%s: a slice or an element of the content type' % short(e, 50))
                return 'transformed'
            return 'unknown'
        if isinstance(e, ast.Call):
            if isinstance(e.func, ast.Attribute):
                k = self.classify(e.func.value, d)
                if k == 'transformed':
                    return 'transformed'
                if k in ('exact', 'fallback'):
                    if e.func.attr in CT_TRANSFORMS:
                        self.how.append('.%s() %s' % (e.func.attr, CT_TRANSFORMS[e.func.attr]))
                        return 'transformed'
                    return 'unknown'
            t = self.p.resolve_callable(self.f, e.func)
            if isinstance(t, Func) and t.qual in CT_SPLITTERS and e.args and not e.keywords:
                if self.classify(e.args[0], d) in ('exact', 'fallback', 'transformed'):
                    self.how.append('%s() %s' % (t.name, CT_SPLITTERS[t.qual]))
                    return 'transformed'
            return 'unknown'
        v = self.p.fold(self.f.module, e, None, self.f)
        return 'const' if v is not UNKNOWN else 'unknown'


def _norm_chain(f: Func, e, depth=0) -> Optional[str]:
    """dotted text of an attribute chain, locals bound once to a chain expanded"""
    e = _unwrap_cast(e)
    if depth > 8:
        return None
    if isinstance(e, ast.Attribute):
        base = _norm_chain(f, e.value, depth + 1)
        return None if base is None else '%s.%s' % (base, e.attr)
    if isinstance(e, ast.Name):
        binds = _assignments(f.node, e.id)
        if not binds:
            return e.id
        if len(binds) == 1 and binds[0][1] is not None:
            return _norm_chain(f, binds[0][1], depth + 1)
    return None


def r7_resolve_by_content_type(run):
    """Request.get_media() (both flavours) - and Response.render_body() - hand the resolver the content type as it
    is: the matching rule of R1/R4 (exact parameter match, number of matching parameters, a shared parameter with
    another value does not match) is only applied to what is passed in.  W: handlers under 'application/json' and
    'application/json; version=2'; a request with Content-Type 'application/json; version=2' resolved by the bare
    type gets the plain handler; with only 'text/plain; charset=utf-8' registered, 'text/plain; charset=latin-1'
    is accepted instead of answered with 415."""
    p = run.project
    cr = p.func(HANDLERS + '._create_resolver')
    res = single(list(cr.nested.values()), 'nested resolver function', cr.qual)
    rparams = _param_names(res, skip_self=False)
    if len(rparams) != 3:
        raise UnknownIdiom('resolver takes %s' % rparams)
    ra = res.node.args
    if ra.vararg or ra.kwarg or ra.kwonlyargs or len(ra.defaults) != 1:
        raise UnknownIdiom('resolver signature %s' % short(ra, 80))
    rnf_default = p.fold(res.module, ra.defaults[0], None, res)
    if not isinstance(rnf_default, bool):
        raise UnknownIdiom('resolver: default of %s does not fold to a bool' % rparams[2])

    for side, wq, aq in R7_SITES:
        forms = []
        flagged = False
        for q in (wq, aq):
            f0 = p.func(q)
            run.use(f0)
            sites = [(f0, c) for c in walk_self(f0.node) if isinstance(c, ast.Call) and isinstance(c.func, ast.Attribute) and c.func.attr == RESOLVER]
            # the resolution step may live in an argument-less method of the same class called on `self` (the same
            # object, so `self.content_type` / `self.options` there are the ones of this message): look through it
            a0 = f0.node.args.posonlyargs + f0.node.args.args
            oc0 = func_owner_class(f0)
            if a0 and oc0 is not None:
                for hc in walk_self(f0.node):
                    if isinstance(hc, ast.Call) and isinstance(hc.func, ast.Attribute) and isinstance(hc.func.value, ast.Name) \
                            and hc.func.value.id == a0[0].arg:
                        g = p.callee(f0, hc)
                        if isinstance(g, Func) and g is not f0 and func_owner_class(g) is not None and not g.is_property() \
                                and p.is_subclass(oc0.qual, func_owner_class(g).qual) is True:
                            gcalls = [c for c in walk_self(g.node) if isinstance(c, ast.Call) and isinstance(c.func, ast.Attribute)
                                      and c.func.attr == RESOLVER]
                            if gcalls:
                                ga = g.node.args
                                if hc.args or hc.keywords or len(ga.posonlyargs + ga.args) != 1 or ga.vararg or ga.kwarg or ga.kwonlyargs:
                                    raise UnknownIdiom('%s: the resolver is asked by %s, which is handed arguments' % (q, g.qual))
                                run.use(g)
                                sites += [(g, c) for c in gcalls if not any(c is c2 for _g, c2 in sites)]
            if not sites:
                raise AnchorError('%s: no call of <handlers>.%s(...)' % (q, RESOLVER))
            for f, c in sites:
                recv = _norm_chain(f, c.func.value)
                if recv is None or not recv.endswith('.' + HANDLERS_ATTR):
                    raise UnknownIdiom('%s: receiver of %s' % (q, short(c, 80)))
                base = recv[:-len(HANDLERS_ATTR) - 1]
                if any(isinstance(a, ast.Starred) for a in c.args) or any(k.arg is None for k in c.keywords) or len(c.args) > 3:
                    raise UnknownIdiom('%s: arguments of %s' % (q, short(c, 80)))
                args = dict(zip(rparams, c.args))
                for k in c.keywords:
                    if k.arg not in rparams or k.arg in args:
                        raise UnknownIdiom('%s: arguments of %s' % (q, short(c, 80)))
                    args[k.arg] = k.value
                if rparams[0] not in args or rparams[1] not in args:
                    raise UnknownIdiom('%s: arguments of %s' % (q, short(c, 80)))
                what_ct = 'the %s content type' % side

                # (1) the requested type is the content type itself
                ca = _CtArg(p, f, c)
                k1 = ca.classify(args[rparams[0]])
                if k1 in ('unknown', 'fallback'):
                    raise UnknownIdiom('%s: media type argument %s of the resolver call' % (q, short(args[rparams[0]], 60)))
                if k1 != 'exact':
                    flagged = True
                run.check(k1 == 'exact',
                          '%s resolves the handler for %s as it is - the matching rule is applied to the type AND its parameters, '
                          'not to a cut or rewritten form' % (f.name, what_ct), f, c, where=f.loc(c),
                          witness=(['argument %s' % short(args[rparams[0]], 80)] + ca.how) if k1 == 'transformed' else
                          ['argument %s is a constant, not %s.%s' % (short(args[rparams[0]], 60), ca.selfname, CONTENT_TYPE)],
                          runtime_witness="handlers under 'application/json' and 'application/json; version=2': Content-Type "
                                          "'application/json; version=2' gets the plain handler; with only 'text/plain; charset=utf-8' "
                                          "registered, 'text/plain; charset=latin-1' is accepted instead of answered with 415")

                # (2) the fallback is the default media type of the same options object
                a2 = args[rparams[1]]
                n2 = _norm_chain(f, a2)
                k2 = 'default' if n2 == '%s.%s' % (base, DEFAULT_ATTR) else _CtArg(p, f, c).classify(a2)
                if k2 not in ('default', 'const', 'exact', 'transformed'):
                    raise UnknownIdiom('%s: default argument %s of the resolver call' % (q, short(a2, 60)))
                if k2 != 'default':
                    flagged = True
                run.check(k2 == 'default', "%s falls back to the options' %s when there is no %s" % (f.name, DEFAULT_ATTR, what_ct[4:]),
                          f, c, where=f.loc(c), witness=['argument %s, expected %s.%s' % (short(a2, 60), base, DEFAULT_ATTR)],
                          runtime_witness='with default_media_type set to another registered type, a message without Content-Type '
                                          'is handled by the wrong handler')

                # (3) no match stays a 415
                rnf = rnf_default
                if rparams[2] in args:
                    rnf = p.fold(f.module, args[rparams[2]], None, f)
                    if not isinstance(rnf, bool):
                        raise UnknownIdiom('%s: %s argument %s of the resolver call' % (q, rparams[2], short(args[rparams[2]], 60)))
                if not rnf:
                    flagged = True
                run.check(rnf is True, '%s lets the resolver answer 415 when no handler matches' % f.name, f, c, where=f.loc(c),
                          runtime_witness='an unsupported content type ends in AttributeError on None (500) instead of 415')
                forms.append((q, (k1, k2, rnf), c))
        # (4) the WSGI and ASGI flavours ask the same question
        by_q: Dict[str, List[tuple]] = {}
        for q, form, c in forms:
            by_q.setdefault(q, []).append(form)
        if sorted(by_q[wq]) == sorted(by_q[aq]):
            run.ok('%s: the WSGI and ASGI flavours pass the same (normalised) arguments to the resolver' % side, p.func(aq).loc(),
                   '%s / %s' % (wq.rsplit('.', 2)[-2] + '.' + wq.rsplit('.', 1)[-1], aq))
        elif not flagged:
            raise UnknownIdiom('%s: resolver calls of %s and %s differ in a way the rule does not understand' % (side, wq, aq))


# ---------------------------------------------------------------------------
# R8 q never decides WHETHER a range matches (added after seeded changes
# s4-c04-2 / s4-c11-1; shared with C04, whose default error serializer picks
# JSON or XML through client_prefers()/quality())
# ---------------------------------------------------------------------------
#
# quality() answers with the q of the MOST SPECIFIC matching range.  A range
# with q=0 is how a client excludes a type from a broader wildcard
# (`application/json;q=0, */*`): it has to take part in the ranking like any
# other range and win by specificity.  If it "does not match" - in
# match_score(), or because it was dropped before scoring - the refused type
# falls through to the wildcard and is acceptable again.  So:
#   * the not-matching returns of match_score() depend only on the type /
#     subtype / parameter comparisons: a not-matching return that is guarded
#     by (dominated by a branch of) a test that reads `quality` - directly or
#     through locals (def-use, _Roles.features) - or whose value is computed
#     from it, is a violation;
#   * no condition in _parse_media_ranges() / quality() - comprehension `if`,
#     if/while test, conditional expression, filter() predicate - reads the
#     `quality` of a range.
# Which guards a not-matching return has otherwise, their order and spelling
# are not looked at (R1 decides the rest).

Q_ATTR = 'quality'
R8_SCORERS = ('_parse_media_ranges', 'quality')
_R8_WITNESS = "quality('application/json', 'application/json;q=0, */*') is 1.0 instead of 0.0: the refused type is served " \
              '(client_prefers() / the default error serializer pick it)'


def _ifexp_arms(e, tests=()):
    """(arm value, IfExp tests on the way to it) of a possibly nested conditional expression"""
    if isinstance(e, ast.IfExp):
        yield from _ifexp_arms(e.body, tests + (e.test,))
        yield from _ifexp_arms(e.orelse, tests + (e.test,))
    else:
        yield e, tests


def _reads_q_deep(e) -> bool:
    """a `.quality` read (or the attribute name as a string, for attrgetter) anywhere below e, lambdas included"""
    return any((isinstance(n, ast.Attribute) and n.attr == Q_ATTR) or (isinstance(n, ast.Constant) and n.value == Q_ATTR) for n in ast.walk(e))


def _conditions(f: Func):
    """(kind, expression) of everything in `f` that selects: statement tests, conditional expressions, comprehension
    conditions (nested lambdas/comprehensions included), predicates of filter()/filterfalse()"""
    for n in ast.walk(f.node):
        if isinstance(n, (ast.FunctionDef, ast.AsyncFunctionDef)) and n is not f.node:
            raise UnknownIdiom('%s: nested function %s' % (f.qual, n.name))
        if isinstance(n, (ast.If, ast.While)):
            yield 'test', n.test
        elif isinstance(n, ast.IfExp):
            yield 'conditional expression', n.test
        elif isinstance(n, ast.comprehension):
            for c in n.ifs:
                yield 'comprehension condition', c
        elif isinstance(n, ast.Call) and (dotted(n.func) or '').split('.')[-1] in ('filter', 'filterfalse') and n.args:
            yield 'filter predicate', n.args[0]
        elif isinstance(n, (ast.Match, ast.Assert)):
            raise UnknownIdiom('%s: %s statement' % (f.qual, type(n).__name__.lower()))


def _deciding_tests(cfg, roles: _Roles, ret: ast.Return, nids) -> List[Tuple[ast.AST, bool, int]]:
    """The tests that DECIDE that `ret` is taken - (test expression, outcome, line):
      * the tests of the if/while statements that enclose it (any depth; the else-side counts with outcome False), and
      * the tests it is directly control-dependent on: one branch of the test always ends in `ret` (ret post-dominates that
        successor, exceptional edges aside) and the other does not - the `if c: return score` / fall-through shape.
    Being merely reached after an earlier guard returned (dominance by its other branch) decides nothing about THIS return
    and is not counted."""
    out, seen = [], set()

    def add(t, truth, lineno):
        k = (unparse(t), truth, lineno)
        if k not in seen:
            seen.add(k)
            out.append((t, truth, lineno))

    child, cur = ret, roles.parent.get(id(ret))
    while cur is not None and cur is not roles.f.node:
        if isinstance(cur, (ast.If, ast.While)):
            add(cur.test, any(child is s for s in cur.body), cur.lineno)
        child, cur = cur, roles.parent.get(id(cur))
    ends = [cfg.exit, cfg.xexit]
    for n in cfg.live_nodes():
        if n.kind != 'test':
            continue
        branches = [(y, l) for (y, l) in cfg.succ[n.id] if l in ('T', 'F')]
        always = [(y, l) for (y, l) in branches
                  if (y in nids or flow.find_path(cfg, [y], nids, edge_filter=flow.no_exc) is not None)
                  and flow.find_path(cfg, [y], ends, avoid_nodes=nids, edge_filter=flow.no_exc) is None]
        if always and len(always) < len(branches):
            for y, l in always:
                add(n.ast, l == 'T', n.lineno)
    return out


def r8_q_never_decides_match(run):
    p = run.project
    ms = p.func(MEDIATYPES + '._MediaRange.match_score')
    cfg = cfg_of(ms, p)
    run.use_cfg(cfg)
    roles = _Roles(ms)
    # every return, split into the arms of a conditional expression; a local bound once stands for its value
    arms_of: List[Tuple[ast.Return, list]] = []
    for r in _returns(ms):
        if r.value is None:
            raise UnknownIdiom('match_score: bare return')
        arms_of.append((r, [(_expand_name(ms, v), tests) for v, tests in _ifexp_arms(_expand_name(ms, r.value))]))
    real_values = [v for _, arms in arms_of for v, _ in arms if _is_real_score(v)]
    sentinels = [(r, arms) for r, arms in arms_of if any(not _is_real_score(v) for v, _ in arms)]
    if not real_values:
        raise AnchorError('match_score: no return of a score tuple found')
    if not sentinels:
        raise AnchorError('match_score: no not-matching return found')
    # anchor: the real score does carry the q of the range (otherwise `quality` is not the contract name any more)
    if not any(Q_ATTR in roles.features(e, control=False)[0] for v in real_values for e in v.elts):
        raise AnchorError('match_score: no score component is derived from self.%s' % Q_ATTR)

    def reads_q(e) -> bool:
        return Q_ATTR in roles.features(e)[0]

    def sources(e) -> str:
        return ', '.join(sorted(roles.features(e)[0])) or 'no contract attribute'

    flagged: Set[int] = set()
    for r, arms in sentinels:
        nids = cfg.nodes_for(r)
        if not nids:
            continue                                 # dead code
        bad_tests = []
        for v, tests in arms:
            if _is_real_score(v):
                continue
            if reads_q(v):
                bad_tests.append((v, 'the not-matching value %s is computed from the q of the range' % short(v, 60), r.lineno))
            for t in tests:
                if reads_q(t):
                    bad_tests.append((t, 'the conditional expression answers "not matching" depending on %s' % short(t, 60), r.lineno))
        guards = _deciding_tests(cfg, roles, r, nids)
        for t, truth, lineno in guards:
            if reads_q(t):
                bad_tests.append((t, 'the not-matching return is taken when %s is %s' % (short(t, 60), str(truth).lower()), lineno))
        what = 'whether a range matches is decided by the type / subtype / parameter comparisons only: a not-matching return of ' \
               'match_score() never depends on the q of the range (q is the LAST component of a real score - a q=0 range must win by ' \
               'specificity to shadow a wildcard)'
        if not bad_tests:
            run.ok(what + ' [deciding tests read: %s]' % ('; '.join(sources(t) for t, _, _ in guards) or 'none'), ms.loc(r), r)
            continue
        path = flow.find_path(cfg, [cfg.entry], nids)
        for e, why, lineno in bad_tests:
            if id(e) in flagged:
                continue
            flagged.add(id(e))
            run.fail(what, ms, e, where='%s:%s' % (ms.file, lineno), witness=[why] + (flow.describe_path(cfg, path) if path else []),
                     runtime_witness=_R8_WITNESS)

    # the ranges are neither dropped before scoring nor skipped while scoring because of their q
    for name in R8_SCORERS:
        f = p.func('%s.%s' % (MEDIATYPES, name))
        run.use(f)
        froles = _Roles(f)
        n_cond, bad = 0, []
        for kind, c in _conditions(f):
            n_cond += 1
            if _reads_q_deep(c):
                bad.append((kind, c))
                continue
            try:
                if Q_ATTR in froles.features(c, control=False)[0]:
                    bad.append((kind, c))
            except UnknownIdiom:
                pass        # a local this rule cannot trace: it is not a direct read of a range's q (R1 decides the wiring)
        what = '%s() hands every range of the header to the ranking whatever its q: no condition in it reads the q of a range ' \
               '(a q=0 range that is the most specific match has to shadow the less specific ones)' % name
        if not bad:
            run.ok(what + ' [%d condition(s)]' % n_cond, f.loc())
        for kind, c in bad:
            run.fail(what, f, c, where=f.loc(c), witness=['%s %s' % (kind, short(c, 80))], runtime_witness=_R8_WITNESS)


# ---------------------------------------------------------------------------
# R9 the requested type and the registered keys meet in the same case form
# (added after seeded change s4-c12-2; shared with C12)
# ---------------------------------------------------------------------------
#
# The resolver compares the requested type with the registered keys twice:
# `self.data[<type>]` and best_match() over the current keys - both compare
# case-sensitively (dict lookup; match_score() uses == on type/subtype).  A
# case fold (frozen table CASE_FOLDS) applied to ONE side only makes a key
# with a letter of the other case unreachable: lower-casing the requested type
# in the resolver turns a handler registered as
# 'application/vnd.Acme.Order.v2+json' into a 415.  Decided:
#   * requested side: folds in a rebinding of the resolver's media-type
#     parameter, or inline in the operand of the exact lookup / of the
#     best-match call;
#   * key side: folds applied to the key parameter in Handlers.__setitem__
#     (every writer stores through it - R3).
# Equal fold sets on both sides (none today) hold; a fold on one side only is
# a violation reported on the folding construct.  Any other rebinding of the
# requested type, and keys folded only at comparison time, stay unknown idioms.

CASE_FOLDS = ('lower', 'upper', 'casefold', 'title', 'capitalize', 'swapcase')
_R9_WITNESS = "handlers['application/vnd.Acme.Order.v2+json'] = h; a request / response with exactly that content type answers 415 " \
              '(get_media() raises HTTPUnsupportedMediaType, render_body() cannot serialize)'


def _text_derived(e, names: Set[str], base=None) -> bool:
    """`e` is one of `names` or text BUILT from it: method-call chains, subscripts / slices, `or`/`and`/conditional
    alternatives, concatenation (+, %), f-strings, `sep.join(pieces)`, `'..'.format(pieces)`, displays and comprehensions
    of pieces, str()/map()/tuple()/list()/reversed()/sorted()/filter() of pieces.  The arguments of any OTHER call are not
    followed (what a helper returns for the type is not known to be the type).  `base`: an optional
    predicate naming further source expressions (an attribute read)."""
    e = _unwrap_cast(e)
    if base is not None and base(e):
        return True
    if isinstance(e, ast.Name):
        return e.id in names
    if isinstance(e, ast.Call) and isinstance(e.func, ast.Attribute):
        if e.func.attr in ('join', 'format') and any(_text_derived(a, names, base) for a in list(e.args) + [k.value for k in e.keywords]):
            return True
        if isinstance(e.func.value, ast.Name) and e.func.value.id == 'str' and e.func.attr in CASE_FOLDS and e.args:
            return _text_derived(e.args[0], names, base)                      # str.lower(x)
        return _text_derived(e.func.value, names, base)
    if isinstance(e, ast.Call) and isinstance(e.func, ast.Name) and e.func.id in _PIECE_CALLS:
        return any(_text_derived(a, names, base) for a in e.args)
    if isinstance(e, ast.Subscript):
        return _text_derived(e.value, names, base)
    if isinstance(e, ast.BoolOp):
        return any(_text_derived(v, names, base) for v in e.values)
    if isinstance(e, ast.IfExp):
        return _text_derived(e.body, names, base) or _text_derived(e.orelse, names, base)
    if isinstance(e, ast.BinOp) and isinstance(e.op, (ast.Add, ast.Mod, ast.Mult)):
        return _text_derived(e.left, names, base) or _text_derived(e.right, names, base)
    if isinstance(e, ast.JoinedStr):
        return any(_text_derived(v, names, base) for v in e.values)
    if isinstance(e, ast.FormattedValue):
        return _text_derived(e.value, names, base)
    if isinstance(e, (ast.Tuple, ast.List, ast.Set)):
        return any(_text_derived(v, names, base) for v in e.elts)
    if isinstance(e, ast.Starred):
        return _text_derived(e.value, names, base)
    if isinstance(e, (ast.GeneratorExp, ast.ListComp, ast.SetComp)):
        return _text_derived(e.elt, names, base) or any(_text_derived(g.iter, names, base) for g in e.generators)
    return False


_PIECE_CALLS = ('str', 'map', 'tuple', 'list', 'reversed', 'sorted', 'filter', 'iter', 'next')


def _direct_folds(e, names: Set[str]) -> Set[str]:
    """case folds applied (anywhere below `e`, comprehensions included) to text derived from `names`: `x.lower()`,
    `str.lower(x)`, `map(str.lower, xs)`"""
    out: Set[str] = set()
    for n in ast.walk(e):
        if not isinstance(n, ast.Call):
            continue
        f = n.func
        if isinstance(f, ast.Attribute) and f.attr in CASE_FOLDS:
            if isinstance(f.value, ast.Name) and f.value.id == 'str' and f.value.id not in names:
                if n.args and _text_derived(n.args[0], names):
                    out.add(f.attr)
            elif _text_derived(f.value, names):
                out.add(f.attr)
        elif isinstance(f, ast.Name) and f.id == 'map' and len(n.args) >= 2 and isinstance(n.args[0], ast.Attribute) \
                and n.args[0].attr in CASE_FOLDS and isinstance(n.args[0].value, ast.Name) and n.args[0].value.id == 'str' \
                and any(_text_derived(a, names) for a in n.args[1:]):
            out.add(n.args[0].attr)
    return out


def _bindings_from(fnode):
    """(names bound, expression they are bound from) for every binding construct whose pieces come from one expression:
    assignments (tuple unpacking included), walrus, for-loops, comprehension clauses"""
    for n in walk_self(fnode):
        if isinstance(n, ast.Assign):
            yield {x.id for t in n.targets for x in ast.walk(t) if isinstance(x, ast.Name) and isinstance(x.ctx, ast.Store)}, n.value
        elif isinstance(n, ast.AnnAssign) and n.value is not None and isinstance(n.target, ast.Name):
            yield {n.target.id}, n.value
        elif isinstance(n, ast.NamedExpr) and isinstance(n.target, ast.Name):
            yield {n.target.id}, n.value
        elif isinstance(n, (ast.For, ast.AsyncFor)):
            yield {x.id for x in ast.walk(n.target) if isinstance(x, ast.Name)}, n.iter
        elif isinstance(n, ast.comprehension):
            yield {x.id for x in ast.walk(n.target) if isinstance(x, ast.Name)}, n.iter


def _derived_closure(fnode, name: str) -> Set[str]:
    out = {name}
    changed = True
    binds = list(_bindings_from(fnode))
    while changed:
        changed = False
        for tgts, v in binds:
            if not tgts <= out and _text_derived(v, out):
                out |= tgts
                changed = True
    return out


class _Folds:
    """The case folds an expression applies to text derived from `base` inside one function - directly, or through the
    locals it reads (`low = mt.lower(); ... self.data[low]`).  Rebindings of `base` itself are not followed through the
    name: they are the constructs the rule reports."""

    def __init__(self, fnode, base: str, extra: Set[str] = frozenset()):
        self.base = base
        self.names = _derived_closure(fnode, base)
        self.src = self.names | set(extra)
        binds = [(t - {base}, v) for t, v in _bindings_from(fnode)]
        self.of: Dict[str, Set[str]] = {n: set() for n in self.names}
        changed = True
        while changed:
            changed = False
            for tgts, v in binds:
                tg = tgts & self.names
                if not tg:
                    continue
                fs = self.folds(v)
                for t in tg:
                    if not fs <= self.of[t]:
                        self.of[t] |= fs
                        changed = True

    def derived(self, e) -> bool:
        return _text_derived(e, self.src)

    def folds(self, e) -> Set[str]:
        out = _direct_folds(e, self.src)
        for n in ast.walk(e):
            if isinstance(n, ast.Name) and isinstance(n.ctx, ast.Load) and n.id != self.base and n.id in self.of:
                out |= self.of[n.id]
        return out


def _folds_in(e, names: Set[str]) -> List[str]:
    return sorted(_direct_folds(e, names))


# R4 (a) keeps its facts ("not empty", "not */*") across a rebinding of the requested type only when the new value is the
# old text up to letter case: a chain of case folds, or the complete re-assembly of one partition()/rpartition() of it
# (or of the two halves of one slice point) with any pieces folded.  Whether folding is RIGHT is R9's verdict.
def _strip_folds(e):
    e = _unwrap_cast(e)
    while isinstance(e, ast.Call) and isinstance(e.func, ast.Attribute) and e.func.attr in CASE_FOLDS and not e.args and not e.keywords:
        e = _unwrap_cast(e.func.value)
    return e


def _peel_folds(e) -> Tuple[Set[str], ast.AST]:
    """(case folds applied, what they are applied to) for a chain of `x.lower()` / `str.lower(x)` calls"""
    folds: Set[str] = set()
    e = _unwrap_cast(e)
    while isinstance(e, ast.Call) and isinstance(e.func, ast.Attribute) and e.func.attr in CASE_FOLDS and not e.keywords:
        if not e.args:
            folds.add(e.func.attr)
            e = _unwrap_cast(e.func.value)
        elif len(e.args) == 1 and isinstance(e.func.value, ast.Name) and e.func.value.id == 'str':
            folds.add(e.func.attr)
            e = _unwrap_cast(e.args[0])
        else:
            break
    return folds, e


def _concat_pieces(e) -> Optional[list]:
    e = _unwrap_cast(e)
    if isinstance(e, ast.BinOp) and isinstance(e.op, ast.Add):
        l, r = _concat_pieces(e.left), _concat_pieces(e.right)
        return None if l is None or r is None else l + r
    if isinstance(e, ast.JoinedStr):
        out = []
        for v in e.values:
            if isinstance(v, ast.Constant):
                if v.value != '':
                    return None
            elif isinstance(v, ast.FormattedValue) and v.conversion == -1 and v.format_spec is None:
                out.append(v.value)
            else:
                return None
        return out
    if isinstance(e, ast.Call) and isinstance(e.func, ast.Attribute) and e.func.attr == 'join' and isinstance(e.func.value, ast.Constant) \
            and e.func.value.value == '' and len(e.args) == 1 and not e.keywords and isinstance(e.args[0], (ast.Tuple, ast.List)) \
            and not any(isinstance(x, ast.Starred) for x in e.args[0].elts):
        return list(e.args[0].elts)
    return [e]


def _same_text_modulo_case(fnode, stmt: ast.Assign, mt: str) -> bool:
    pieces = _concat_pieces(stmt.value)
    if not pieces:
        return False
    pieces = [_strip_folds(x) for x in pieces]

    def is_mt(e):
        return isinstance(e, ast.Name) and e.id == mt

    if len(pieces) == 1:
        return is_mt(pieces[0])
    if len(pieces) == 2 and all(isinstance(x, ast.Subscript) and is_mt(_strip_folds(x.value)) and isinstance(x.slice, ast.Slice)
                                and x.slice.step is None for x in pieces):
        a, b = pieces[0].slice, pieces[1].slice
        return (a.lower is None and b.upper is None and a.upper is not None and b.lower is not None
                and isinstance(a.upper, (ast.Name, ast.Constant)) and unparse(a.upper) == unparse(b.lower))
    if len(pieces) == 3 and all(isinstance(x, ast.Name) for x in pieces):
        ids = [x.id for x in pieces]
        if len(set(ids)) != 3 or mt in ids:
            return False
        binds = [_assignments(fnode, i) for i in ids]
        if any(len(b) != 1 for b in binds) or len({id(b[0][0]) for b in binds}) != 1:
            return False
        src = binds[0][0][0]
        if not (isinstance(src, ast.Assign) and len(src.targets) == 1 and isinstance(src.targets[0], (ast.Tuple, ast.List))
                and [getattr(t, 'id', None) for t in src.targets[0].elts] == ids):
            return False
        v = _unwrap_cast(src.value)
        if not (isinstance(v, ast.Call) and isinstance(v.func, ast.Attribute) and v.func.attr in ('partition', 'rpartition')
                and is_mt(_strip_folds(v.func.value)) and len(v.args) == 1 and not v.keywords
                and isinstance(v.args[0], ast.Constant) and isinstance(v.args[0].value, str) and v.args[0].value):
            return False
        # the pieces are cut from the value the name has at the rebinding: same block, nothing binds the name in between
        for n in ast.walk(fnode):
            for field in ('body', 'orelse', 'finalbody'):
                block = getattr(n, field, None)
                if isinstance(block, list) and any(x is src for x in block) and any(x is stmt for x in block):
                    i, j = [k for k, x in enumerate(block) if x is src][0], [k for k, x in enumerate(block) if x is stmt][0]
                    return i < j and not any(isinstance(x, ast.Name) and x.id == mt and isinstance(x.ctx, ast.Store)
                                             for between in block[i + 1:j] for x in ast.walk(between))
        return False
    return False


def r9_same_case_form(run):
    p = run.project
    cr = p.func(HANDLERS + '._create_resolver')
    res = single(list(cr.nested.values()), 'nested resolver function', cr.qual)
    run.use(res)
    params = _param_names(res, skip_self=False)
    if len(params) != 3:
        raise UnknownIdiom('resolver takes %s' % params)
    mt, dflt, _ = params
    dal = _data_aliases(res)
    F = _Folds(res.node, mt, {dflt})
    names = F.names

    # --- requested side
    req: List[Tuple[ast.AST, List[str]]] = []          # (construct, folds)
    # (1) rebindings of the requested type.  The default fallback is R4's; any other new value has to be BUILT from the old
    #     one (pieces of a partition / split / slices, concatenated, formatted or joined): a case fold on ANY piece is a fold
    #     of the requested side.  A rebinding without a fold, or one this rule cannot read, stays an unknown idiom.
    for stmt, v in _assignments(res.node, mt):
        if isinstance(stmt, (ast.Assign, ast.AnnAssign)) and v is not None and _pure_selection(v, names | {dflt}) and not F.folds(v):
            continue                                       # the default fallback / a selection between the two texts as they are (R4)
        folds = sorted(F.folds(v)) if isinstance(stmt, (ast.Assign, ast.AnnAssign)) and v is not None and F.derived(v) else []
        if not folds:
            raise UnknownIdiom('resolver: requested type rebound by %s' % short(stmt, 80))
        req.append((stmt, folds))
    # (2) the operands of the two comparisons (the requested type, the default substituted for it, locals built from them)
    opnames = _derived_closure_of(res.node, names | {dflt})
    for tgts, v in _bindings_from(res.node):
        if not _text_derived(v, opnames):
            opnames -= (tgts - {mt, dflt})                 # also bound to something else (the best-match answer): not the type
    n_ops = 0
    for n in walk_self(res.node):
        if isinstance(n, ast.Subscript) and isinstance(n.ctx, ast.Load) and _is_selfdata(n.value, dal) and _text_derived(n.slice, opnames):
            n_ops += 1
            if F.folds(n.slice):
                req.append((n, sorted(F.folds(n.slice))))
        elif isinstance(n, ast.Call):
            t = p.resolve_callable(res, n.func)
            if isinstance(t, Func) and t.qual in (BRIDGE, MEDIATYPES + '.best_match'):
                for a in list(n.args) + [k.value for k in n.keywords]:
                    if _mentions_mapping(a, dal):
                        if any(isinstance(x, ast.Call) and isinstance(x.func, ast.Attribute) and x.func.attr in CASE_FOLDS for x in ast.walk(a)):
                            raise UnknownIdiom('resolver: the keys are case-folded only for the comparison in %s' % short(n, 80))
                    elif _text_derived(a, opnames):
                        n_ops += 1
                        if F.folds(a):
                            req.append((n, sorted(F.folds(a))))
            elif isinstance(n.func, ast.Attribute) and n.func.attr == 'get' and _is_selfdata(n.func.value, dal) and n.args \
                    and _text_derived(n.args[0], opnames):
                n_ops += 1
                if F.folds(n.args[0]):
                    req.append((n, sorted(F.folds(n.args[0]))))
    if n_ops < 2:
        raise AnchorError('resolver: exact lookup and best-match call on the requested type not found (%d)' % n_ops)

    # --- key side: what Handlers.__setitem__ stores
    hc = p.cls(HANDLERS)
    st = hc.methods.get('__setitem__')
    if st is None:
        raise AnchorError('%s.__setitem__ is not defined (R3: every writer stores through it)' % HANDLERS)
    run.use(st)
    sp = _param_names(st)
    if len(sp) != 2:
        raise UnknownIdiom('%s takes %s' % (st.qual, sp))
    knames = _derived_closure(st.node, sp[0])
    key: List[Tuple[ast.AST, List[str]]] = []
    for n in walk_self(st.node):
        if isinstance(n, ast.stmt) and not isinstance(n, (ast.If, ast.While, ast.For, ast.Try, ast.With)):
            folds = _folds_in(n, knames)
            if folds:
                key.append((n, folds))

    f_req = sorted({f for _, fs in req for f in fs})
    f_key = sorted({f for _, fs in key for f in fs})
    what_r = 'resolver: the requested type is compared with the registered keys in the case form the keys are stored in ' \
             '(folds on the requested type: %s; on the stored keys: %s) - dict lookup and match_score() compare case-sensitively' % (
                 '/'.join(f_req) or 'none', '/'.join(f_key) or 'none')
    what_k = '%s.__setitem__ stores the key in the case form the resolver looks it up in (folds on the stored keys: %s; on the ' \
             'requested type: %s)' % (HANDLERS.rsplit('.', 1)[-1], '/'.join(f_key) or 'none', '/'.join(f_req) or 'none')
    if f_req == f_key:
        run.ok(what_r, res.loc(), req[0][0] if req else None)
        run.ok(what_k, st.loc(), key[0][0] if key else None)
        return
    # one-sided (or differently folded): blame the constructs whose folds the other side lacks
    blamed = False
    if not any(set(fs) - set(f_key) for _, fs in req):
        run.ok('resolver: no case fold on the requested type beyond those of the stored keys (folds: %s)' % ('/'.join(f_req) or 'none'), res.loc())
    if not any(set(fs) - set(f_req) for _, fs in key):
        run.ok('%s.__setitem__: no case fold on the stored key beyond those of the requested type (folds: %s)' % (
            HANDLERS.rsplit('.', 1)[-1], '/'.join(f_key) or 'none'), st.loc())
    for n, fs in req:
        if set(fs) - set(f_key):
            blamed = True
            run.fail(what_r, res, n, where=res.loc(n), witness=['%s applied to the requested type only' % '/'.join(sorted(set(fs) - set(f_key)))],
                     runtime_witness=_R9_WITNESS)
    for n, fs in key:
        if set(fs) - set(f_req):
            blamed = True
            run.fail(what_k, st, n, where=st.loc(n), witness=['%s applied to the registered key only' % '/'.join(sorted(set(fs) - set(f_req)))],
                     runtime_witness="handlers['Application/JSON'] = h is stored under another spelling than the one the resolver looks up")
    if not blamed:
        raise UnknownIdiom('resolver / __setitem__: case folds %s vs %s' % (f_req, f_key))


# ---------------------------------------------------------------------------
# R11 the weight stored for a range is the parsed float ITSELF (added after
# seeded change s7-c11-3)
# ---------------------------------------------------------------------------
#
# "... then q": the last criterion compares the q values the client sent, and
# "q=0 is never chosen" means q == 0, not q < 0.0005.  Between `float(<q text>)`
# and the constructor slot of the range object the value may be VALIDATED (R2:
# the range tests) but never rewritten: a round()/int()/floor()/abs()/min()/
# max()/arithmetic on the way (frozen family Q_TRANSFORMS) changes which of two
# ranges wins, or turns a small positive weight into a refusal.  Witness:
# `round(q, 3)`: quality('text/html', 'text/html;q=0.0004') == 0.0, so
# client_accepts('text/html') is False; 'a/x;q=0.9991, a/y;q=0.9994' is a tie.
# The q TEXT handed to float() is the parameter value as parsed: a slice of it
# (`params.pop('q')[:5]`) is the same truncation one step earlier.  What
# match_score()/quality()/best_match() do with the stored weight is R1's.

Q_TRANSFORMS = ('builtins.round', 'builtins.int', 'builtins.abs', 'builtins.min', 'builtins.max', 'builtins.divmod', 'builtins.pow',
                'math.floor', 'math.ceil', 'math.trunc', 'math.fabs', 'math.fmod', 'math.copysign', 'math.sqrt', 'math.nextafter',
                'decimal.Decimal', 'fractions.Fraction', 'builtins.bool')
_R11_WITNESS = "Accept: 'text/html;q=0.0004' -> quality() is 0.0 / client_accepts('text/html') is False although the client accepts it; " \
               "'application/xml;q=0.9991, application/json;q=0.9994' becomes a tie decided by candidate order"


def _q_shape(p, f: Func, e, is_src) -> Optional[str]:
    """How `e` relates to the parsed weight: 'same' (the value itself), 'transformed' (a Q_TRANSFORMS call / arithmetic on
    it), 'unknown' (mentions it in a shape that is not read), None (does not mention it)."""
    e = _unwrap_cast(e)
    if is_src(e):
        return 'same'
    if not any(is_src(x) for x in ast.walk(e)):
        return None
    if isinstance(e, ast.Call):
        t = p.resolve_callable(f, e.func)
        args = list(e.args) + [k.value for k in e.keywords]
        shapes = [_q_shape(p, f, a, is_src) for a in args]
        if any(is_src(x) for x in ast.walk(e.func)):
            if isinstance(e.func, ast.Attribute) and e.func.attr in ('__round__', '__trunc__', '__floor__', '__ceil__', '__int__', '__abs__',
                                                                       'as_integer_ratio', '__floordiv__', '__mul__', '__truediv__'):
                return 'transformed' if _q_shape(p, f, e.func.value, is_src) in ('same', 'transformed') else 'unknown'
            return 'unknown'
        if 'unknown' in shapes:
            return 'unknown'
        if t == 'builtins.float' and len(args) == 1:
            return shapes[0]                                    # float(x) of a float is x
        if isinstance(t, str) and t in Q_TRANSFORMS:
            return 'transformed'
        return 'unknown'
    if isinstance(e, ast.BinOp):
        l, r = _q_shape(p, f, e.left, is_src), _q_shape(p, f, e.right, is_src)
        return 'unknown' if 'unknown' in (l, r) else 'transformed'
    if isinstance(e, ast.UnaryOp) and isinstance(e.op, (ast.USub, ast.UAdd, ast.Invert)):
        o = _q_shape(p, f, e.operand, is_src)
        return o if o == 'unknown' else ('same' if isinstance(e.op, ast.UAdd) and o == 'same' else 'transformed')
    if isinstance(e, ast.IfExp):
        b, o = _q_shape(p, f, e.body, is_src), _q_shape(p, f, e.orelse, is_src)
        if b == o == 'same':
            return 'same'
        if 'transformed' in (b, o) and 'unknown' not in (b, o):
            return 'transformed'
        return 'unknown'
    return 'unknown'


def _ctor_slots(p, c: Class) -> List[str]:
    """the constructor's parameter names, in order: __init__'s, or the annotated fields of a dataclass"""
    init = c.methods.get('__init__')
    if init is not None:
        return _param_names(init)
    decos = [unparse(d) for d in c.node.decorator_list]
    if not any('dataclass' in d for d in decos):
        raise UnknownIdiom('%s: neither __init__ nor a dataclass' % c.qual)
    out = []
    for st in c.node.body:
        if isinstance(st, ast.AnnAssign) and isinstance(st.target, ast.Name) and 'ClassVar' not in unparse(st.annotation):
            out.append(st.target.id)
    return out


def r11_quality_stored_as_parsed(run):
    p = run.project
    rc = p.cls(MEDIATYPES + '._MediaRange')
    f = p.func(MEDIATYPES + '._MediaRange.parse')
    cfg = cfg_of(f, p)
    run.use_cfg(cfg)
    slots = _ctor_slots(p, rc)
    if 'quality' not in slots:
        raise AnchorError('%s: no constructor slot named quality (%s)' % (rc.qual, slots))
    qi = slots.index('quality')

    floats = [c for c in walk_self(f.node) if isinstance(c, ast.Call) and p.resolve_callable(f, c.func) == 'builtins.float']
    fl = single(floats, 'float() conversion of q', f.qual)
    parent = enclosing_map(f.node)
    stmt = fl
    while not isinstance(stmt, ast.stmt):
        stmt = parent[id(stmt)]
    if not (isinstance(stmt, (ast.Assign, ast.AnnAssign)) and isinstance((stmt.targets[0] if isinstance(stmt, ast.Assign) else stmt.target), ast.Name)
            and (not isinstance(stmt, ast.Assign) or len(stmt.targets) == 1)):
        raise UnknownIdiom('_MediaRange.parse: float() result is not bound to a local: %s' % short(stmt, 80))
    qv = (stmt.targets[0] if isinstance(stmt, ast.Assign) else stmt.target).id

    # (1) the text handed to float() is the q parameter as parsed
    if len(fl.args) != 1 or fl.keywords:
        raise UnknownIdiom('_MediaRange.parse: %s' % short(fl, 60))

    def q_text(e, depth=0) -> str:
        """'param' | 'cut' | 'unknown'"""
        e = _unwrap_cast(e)
        if isinstance(e, ast.Name) and depth < 4:
            binds = _assignments(f.node, e.id)
            if len(binds) == 1 and binds[0][1] is not None:
                return q_text(binds[0][1], depth + 1)
            return 'unknown'
        if isinstance(e, ast.Subscript):
            if isinstance(e.slice, ast.Slice):
                return 'cut' if q_text(e.value, depth) in ('param', 'cut') else 'unknown'
            key = _lit(p, f, e.slice)                    # `_Q = 'q'` at module level is the literal
            if isinstance(key, ast.Constant) and key.value == 'q':
                return 'param'
            return 'unknown'
        if isinstance(e, ast.Call) and isinstance(e.func, ast.Attribute):
            key = _lit(p, f, e.args[0]) if e.args else None
            if e.func.attr in ('pop', 'get') and isinstance(key, ast.Constant) and key.value == 'q':
                return 'param'
            if e.func.attr in ('strip', 'lstrip', 'rstrip') and not e.args:
                return q_text(e.func.value, depth)
            if e.func.attr in ('split', 'rsplit', 'partition', 'rpartition', 'format', 'replace', 'ljust', 'rjust', 'zfill') \
                    and q_text(e.func.value, depth) in ('param', 'cut'):
                return 'cut'
        if isinstance(e, ast.Call) and isinstance(e.func, ast.Name) and e.func.id == 'str' and len(e.args) == 1:
            return q_text(e.args[0], depth)
        return 'unknown'

    kind = q_text(fl.args[0])
    if kind == 'unknown':
        raise UnknownIdiom('_MediaRange.parse: text handed to float(): %s' % short(fl.args[0], 60))
    run.check(kind == 'param', "the q text is converted as the client sent it: float() receives the whole value of the 'q' parameter, not a cut of it",
              f, fl, where=f.loc(fl), runtime_witness=_R11_WITNESS)

    # (2) the float() result is bound as it is
    def is_fl(e):
        return e is fl
    sh = _q_shape(p, f, stmt.value, is_fl)
    if sh in (None, 'unknown'):
        raise UnknownIdiom('_MediaRange.parse: %s' % short(stmt, 80))
    run.check(sh == 'same', 'the parsed weight is kept as float() returned it (validated, never rounded / truncated / scaled)', f, stmt,
              where=f.loc(stmt), runtime_witness=_R11_WITNESS)

    # (3) no rebinding of it, aliases
    same: Set[str] = {qv}
    tainted: Dict[str, ast.AST] = {}
    changed = True
    while changed:
        changed = False

        def is_src(e):
            return isinstance(e, ast.Name) and isinstance(e.ctx, ast.Load) and (e.id in same or e.id in tainted)
        for tgts, v in _bindings_from(f.node):
            if v is stmt.value or v is None:
                continue
            shp = _q_shape(p, f, v, is_src)
            if shp is None:
                if tgts & (same | set(tainted)) and not (tgts == {qv}):
                    raise UnknownIdiom('_MediaRange.parse: %s is also bound from %s' % (sorted(tgts & (same | set(tainted))), short(v, 60)))
                continue
            if shp == 'unknown' or len(tgts) != 1:
                raise UnknownIdiom('_MediaRange.parse: the parsed q flows into %s' % short(v, 80))
            (t,) = tgts
            reads_tainted = any(isinstance(x, ast.Name) and x.id in tainted for x in ast.walk(v))
            if shp == 'same' and not reads_tainted:
                if t not in same:
                    same.add(t)
                    changed = True
            elif t not in tainted:
                tainted[t] = v
                changed = True
    binds_of = {}
    for n in walk_self(f.node):
        if isinstance(n, (ast.Assign, ast.AnnAssign, ast.AugAssign, ast.NamedExpr)):
            binds_of[id(getattr(n, 'value', None))] = n
    for n in walk_self(f.node):
        if isinstance(n, ast.AugAssign) and isinstance(n.target, ast.Name) and (n.target.id in same or n.target.id in tainted):
            if (isinstance(n.op, (ast.Mult, ast.Div)) and _is_const_num(n.value, (1, 1.0))) or \
                    (isinstance(n.op, (ast.Add, ast.Sub)) and _is_const_num(n.value, (0, 0.0))):
                continue                                   # the identity
            tainted[n.target.id] = n.value
    for t, v in sorted(tainted.items()):
        where = binds_of.get(id(v), v)
        run.fail('the parsed weight is kept as float() returned it (validated, never rounded / truncated / scaled)', f, where,
                 where=f.loc(where), runtime_witness=_R11_WITNESS)

    def is_q(e):
        return isinstance(e, ast.Name) and isinstance(e.ctx, ast.Load) and e.id in same

    def is_any_q(e):
        return isinstance(e, ast.Name) and isinstance(e.ctx, ast.Load) and (e.id in same or e.id in tainted)

    # (4) the constructor slot of every range built after the conversion
    start = cfg.nodes_for(stmt)
    if not start:
        raise AnchorError('_MediaRange.parse: the float() statement is not live')
    after = flow.reachable(cfg, start, edge_filter=flow.no_exc)
    n_ctor = 0
    for n in cfg.live_nodes():
        if n.id not in after or n.id in start:
            continue
        for c in n.calls():
            fn = _unwrap_cast(c.func)
            is_ctor = (isinstance(fn, ast.Name) and fn.id == 'cls') or p.resolve_callable(f, c.func) is rc or \
                (isinstance(p.resolve_callable(f, c.func), Class) and p.resolve_callable(f, c.func).qual == rc.qual)
            if not is_ctor:
                continue
            if any(isinstance(a, ast.Starred) for a in c.args) or any(k.arg is None for k in c.keywords):
                raise UnknownIdiom('_MediaRange.parse: %s' % short(c, 80))
            arg = c.args[qi] if qi < len(c.args) else next((k.value for k in c.keywords if k.arg == 'quality'), None)
            if arg is None:
                raise UnknownIdiom('_MediaRange.parse: %s passes no quality' % short(c, 80))
            n_ctor += 1
            arg_u = _unwrap_cast(arg)
            if isinstance(arg_u, ast.Name) and arg_u.id in tainted:
                continue                                   # reported on the rebinding
            shp = _q_shape(p, f, arg, is_any_q)
            if shp in (None, 'unknown'):
                raise UnknownIdiom('_MediaRange.parse: weight of the range built by %s' % short(c, 80))
            run.check(shp == 'same', 'the range object stores the weight the client sent: the quality slot of the constructor receives the '
                      'parsed float itself', f, arg if shp != 'same' else c, where=f.loc(c), runtime_witness=_R11_WITNESS)
    if not n_ctor:
        raise AnchorError('_MediaRange.parse: no range is constructed after the q conversion')

    # (5) no method of the class rewrites the stored weight
    n_w = 0
    for m in rc.methods.values():
        mp = _param_names(m)
        for n in walk_self(m.node):
            val = None
            if isinstance(n, (ast.Assign, ast.AugAssign, ast.AnnAssign)):
                tg = n.targets if isinstance(n, ast.Assign) else [n.target]
                if any(isinstance(x, ast.Attribute) and x.attr == 'quality' and isinstance(x.ctx, ast.Store) for t in tg for x in ast.walk(t)):
                    val = n
            elif isinstance(n, ast.Call) and isinstance(n.func, ast.Attribute) and n.func.attr == '__setattr__' and len(n.args) >= 2 \
                    and any(isinstance(a, ast.Constant) and a.value == 'quality' for a in n.args[:2]):
                val = n
            if val is None:
                continue
            n_w += 1
            v = val.args[-1] if isinstance(val, ast.Call) else getattr(val, 'value', None)

            def is_stored(e):
                return (isinstance(e, ast.Name) and e.id in mp) or (isinstance(e, ast.Attribute) and e.attr == 'quality' and isinstance(e.ctx, ast.Load))
            shp = 'transformed' if isinstance(val, ast.AugAssign) else (_q_shape(p, m, v, is_stored) if v is not None else 'unknown')
            if shp in (None, 'unknown'):
                raise UnknownIdiom('%s writes quality: %s' % (m.qual, short(val, 80)))
            run.check(shp == 'same', 'the range object stores the weight as handed to its constructor', m, val, where=m.loc(val),
                      runtime_witness=_R11_WITNESS)
    if not n_w:
        run.ok('no method of %s rewrites the stored quality (the generated constructor stores the argument)' % rc.qual.rsplit('.', 1)[-1], rc.loc())


# ---------------------------------------------------------------------------
# R10 client_accepts() / client_prefers() answer by NEGOTIATION; a shortcut
# around it is an equality of the whole header (added after seeded change
# s5-c11-2)
# ---------------------------------------------------------------------------
#
# What the client accepts is what mediatypes.quality() / best_match() say about
# the whole Accept header: the most specific range decides, a q=0 range
# excludes, an unparsable header accepts nothing.  A fast path that answers
# without that call is right only where the answer cannot depend on the rest of
# the header - when the WHOLE header value EQUALS the requested type or the
# catch-all '*/*'.  "The header contains */*" (`'*/*' in accept`, startswith /
# endswith / find / split / a slice / a regular expression - frozen family
# PARTIAL_TEXT_TESTS) looks like it and is not: 'text/csv;q=0, */*' and
# '*/*;q=0' contain the catch-all and refuse the type.  Decided, for every value
# the two methods can hand out (returns, the arms of conditional expressions,
# the disjuncts of `a or b`, the values of a returned local):
#   * a value computed from the negotiation call: the call receives (requested
#     type(s), whole Accept value) in that order; client_accepts() compares the
#     quality strictly with zero, client_prefers() hands the choice out as is;
#   * (added after seeded change s6-c11-1) both arguments reach the call in ONE
#     case form: match_score() compares types, subtypes and parameter values as
#     they are spelled, so a case fold (CASE_FOLDS of R9: lower/upper/casefold/
#     ...) applied to the Accept text only - inline, through a local
#     (`accept = self.accept.lower()`) - or to the requested type(s) only
#     (inline, `[t.lower() for t in types]`, `map(str.lower, types)`, a
#     re-binding of the parameter) is a violation reported on the folding
#     construct: a type listed verbatim with capitals is refused, and
#     `format=Flowed` is answered with `format=flowed`.  The same folds on BOTH
#     sides compare parameter values case-insensitively: not decided (unknown
#     idiom).  The shortcut equality may look at the header in the case form
#     the call receives; any other mix is an unknown idiom;
#   * a positive answer that is not: some test on the way to it (dominating
#     branch outcome, conditional-expression test, earlier disjunct)
#     establishes the equality; otherwise a test of the PARTIAL family deciding
#     it is the violation, and any other shape is an unknown idiom;
#   * a negative answer that is not (outside the exception handlers - R5):
#     a PARTIAL test deciding it is a violation; anything else is not this
#     rule's business.

NEGOTIATORS = {'client_accepts': MEDIATYPES + '.quality', 'client_prefers': MEDIATYPES + '.best_match'}
ACCEPT_ATTR = 'accept'
ANY_TYPE = '*/*'
PARTIAL_TEXT_TESTS = ('startswith', 'endswith', 'find', 'rfind', 'index', 'rindex', 'count', '__contains__', 'split', 'rsplit',
                      'partition', 'rpartition', 'splitlines')
PARTIAL_TEXT_MODULES = ('re', 'fnmatch')
_R10_FOLD_WITNESS = "Accept: 'application/vnd.Acme.Order-v2+json' -> client_accepts('application/vnd.Acme.Order-v2+json') is False although " \
                    "the type is listed verbatim; Accept: 'text/plain; format=Flowed' -> client_prefers(['text/plain; format=flowed']) " \
                    'chooses a type whose parameter value differs'
_R10_WITNESS = "Accept: 'text/csv;q=0, */*' -> client_accepts('text/csv') is True although the type is refused; Accept: '*/*;q=0' accepts " \
               'everything; client_accepts() disagrees with client_prefers() / quality() on the same header'


class _AcceptText:
    """Where the Accept header text is in one method: the attribute read, the locals that ARE it, the locals built from it,
    and the locals that are PIECES of it."""

    def __init__(self, p, f: Func):
        self.p, self.f = p, f
        binds = list(_bindings_from(f.node))
        self.whole: Set[str] = set()
        changed = True
        while changed:
            changed = False
            for n in walk_self(f.node):
                if isinstance(n, ast.Assign) and len(n.targets) == 1 and isinstance(n.targets[0], ast.Name) \
                        and n.targets[0].id not in self.whole and self.is_whole(n.value):
                    self.whole.add(n.targets[0].id)
                    changed = True
        for n in sorted(self.whole):
            if len(_assignments(f.node, n)) != 1:
                raise UnknownIdiom('%s: %s is bound to the Accept value and to something else' % (f.qual, n))
        # locals that are the whole value UP TO LETTER CASE (`accept = self.accept.lower()`): name -> (folds, binding statement)
        self.folded: Dict[str, Tuple[Set[str], ast.stmt]] = {}
        changed = True
        while changed:
            changed = False
            for n in walk_self(f.node):
                if isinstance(n, ast.Assign) and len(n.targets) == 1 and isinstance(n.targets[0], ast.Name) \
                        and n.targets[0].id not in self.whole and n.targets[0].id not in self.folded \
                        and len(_assignments(f.node, n.targets[0].id)) == 1:
                    fs = self.whole_modulo_case(n.value)
                    if fs:
                        self.folded[n.targets[0].id] = (fs, n)
                        changed = True
        self.names: Set[str] = set(self.whole)
        changed = True
        while changed:
            changed = False
            for tgts, v in binds:
                if not tgts <= self.names and self.derived(v):
                    self.names |= tgts
                    changed = True
        self.pieces: Set[str] = set()
        loops = {id(n.iter) for n in ast.walk(f.node) if isinstance(n, (ast.For, ast.AsyncFor, ast.comprehension))}
        changed = True
        while changed:
            changed = False
            for tgts, v in binds:
                if tgts <= self.pieces or not self.derived(v):
                    continue
                if id(v) in loops or self.partial_constructs(v):
                    self.pieces |= tgts - self.whole
                    changed = True

    def is_attr(self, e) -> bool:
        return is_self_attr(_unwrap_cast(e), ACCEPT_ATTR)

    def is_whole(self, e) -> bool:
        e = _unwrap_cast(e)
        return self.is_attr(e) or (isinstance(e, ast.Name) and e.id in self.whole)

    def whole_modulo_case(self, e) -> Optional[Set[str]]:
        """the case folds (CASE_FOLDS) under which `e` is the whole Accept value: set() for the value itself, None when
        `e` is something else"""
        folds, e = _peel_folds(e)
        if self.is_whole(e):
            return folds
        if isinstance(e, ast.Name) and e.id in self.folded:
            return folds | self.folded[e.id][0]
        return None

    def fold_site(self, e):
        """the construct that applies the fold: the binding of the folded local, else the expression itself"""
        _, base = _peel_folds(e)
        if isinstance(base, ast.Name) and base.id in self.folded and not _peel_folds(e)[0]:
            return self.folded[base.id][1]
        return e

    def derived(self, e) -> bool:
        return _text_derived(e, self.names, self.is_attr)

    def partial_constructs(self, e) -> List[ast.AST]:
        """the constructs below `e` that look at a PART of the Accept text"""
        out = []
        for n in ast.walk(e):
            if isinstance(n, ast.Compare):
                left = n.left
                for op, right in zip(n.ops, n.comparators):
                    if isinstance(op, (ast.In, ast.NotIn)) and not isinstance(_unwrap_cast(right), (ast.Tuple, ast.List, ast.Set)) \
                            and self.derived(right):
                        out.append(n)
                    left = right
            elif isinstance(n, ast.Call) and isinstance(n.func, ast.Attribute) and n.func.attr in PARTIAL_TEXT_TESTS and self.derived(n.func.value):
                out.append(n)
            elif isinstance(n, ast.Call) and (dotted(n.func) or '').split('.')[0] in PARTIAL_TEXT_MODULES \
                    and any(self.derived(a) for a in n.args):
                out.append(n)
            elif isinstance(n, ast.Subscript) and self.derived(n.value):
                out.append(n)
            elif isinstance(n, ast.Name) and isinstance(n.ctx, ast.Load) and n.id in self.pieces:
                out.append(n)
        return out


def _negotiated_answers(run, p, f: Func, name: str, neg_qual: str):
    cfg = cfg_of(f, p)
    run.use_cfg(cfg)
    roles = _Roles(f)
    params = _param_names(f)
    if len(params) != 1:
        raise UnknownIdiom('%s takes %s' % (f.qual, params))
    wanted = params[0]
    A = _AcceptText(p, f)
    if not any(A.is_attr(n) for n in walk_self(f.node)):
        raise AnchorError('%s: self.%s is not read' % (f.qual, ACCEPT_ATTR))
    callee = p.func(neg_qual)
    calls = [c for c in walk_self(f.node) if isinstance(c, ast.Call) and isinstance(p.resolve_callable(f, c.func), Func)
             and p.resolve_callable(f, c.func).qual == neg_qual]
    if not calls:
        raise AnchorError('%s: no call of %s' % (f.qual, neg_qual))
    neg_names = {n for n in local_names_bound(f) if _assignments(f.node, n)
                 and all(v is not None and any(x is c for x in ast.walk(v) for c in calls) for _, v in _assignments(f.node, n))}

    def is_neg(e) -> bool:
        return any(e is c for c in calls) or (isinstance(e, ast.Name) and e.id in neg_names)

    def negotiated(e) -> bool:
        return any(is_neg(x) for x in ast.walk(e))

    # the requested type(s) may be re-bound only to a case fold of themselves, by unconditional top-level statements that
    # precede every negotiation call (`media_type = media_type.lower()`); anything else is not read
    rebind_folds: Set[str] = set()
    rebind_site = None
    for st, v in _assignments(f.node, wanted):
        top = [i for i, s2 in enumerate(f.node.body) if s2 is st]
        rf, rinner = _peel_folds(v) if v is not None and isinstance(st, ast.Assign) else (set(), None)
        before = top and not any(x is c2 for s3 in f.node.body[:top[0] + 1] for x in ast.walk(s3) for c2 in calls)
        if not (before and rf and isinstance(rinner, ast.Name) and rinner.id == wanted):
            raise UnknownIdiom('%s: the requested type is re-bound by %s' % (f.qual, short(st, 80)))
        rebind_folds |= rf
        rebind_site = st

    def wanted_folds(e, depth=0):
        """(case folds, construct applying them) when `e` is the requested type(s) up to letter case: the parameter, a
        fold chain of it, `[t.lower() for t in types]` / `map(str.lower, types)` (optionally materialised), or a local
        bound once to one of those; None otherwise"""
        if depth > 6:
            return None
        x = _unwrap_cast(e)
        folds, inner = _peel_folds(x)
        if isinstance(inner, ast.Name):
            if inner.id == wanted:
                return (folds | rebind_folds, x if folds else (rebind_site if rebind_folds else x))
            binds = _assignments(f.node, inner.id)
            if len(binds) == 1 and isinstance(binds[0][0], ast.Assign) and binds[0][1] is not None:
                r = wanted_folds(binds[0][1], depth + 1)
                if r is not None:
                    return folds | r[0], (x if folds else (binds[0][0] if r[0] else x))
            return None
        if folds:
            return None
        if isinstance(x, ast.Call) and isinstance(x.func, ast.Name) and x.func.id in ('list', 'tuple', 'iter') and len(x.args) == 1 \
                and not x.keywords:
            return wanted_folds(x.args[0], depth + 1)
        if isinstance(x, ast.Call) and isinstance(x.func, ast.Name) and x.func.id == 'map' and len(x.args) == 2 and not x.keywords \
                and isinstance(x.args[0], ast.Attribute) and isinstance(x.args[0].value, ast.Name) and x.args[0].value.id == 'str' \
                and x.args[0].attr in CASE_FOLDS:
            r = wanted_folds(x.args[1], depth + 1)
            return None if r is None else (r[0] | {x.args[0].attr}, x)
        if isinstance(x, (ast.ListComp, ast.GeneratorExp)) and len(x.generators) == 1 and not x.generators[0].ifs \
                and isinstance(x.generators[0].target, ast.Name) and not x.generators[0].is_async:
            ef, einner = _peel_folds(x.elt)
            if isinstance(einner, ast.Name) and einner.id == x.generators[0].target.id:
                r = wanted_folds(x.generators[0].iter, depth + 1)
                return None if r is None else (r[0] | ef, x)
        return None

    call_sides: List[Tuple[Set[str], Set[str]]] = []      # (folds on the header, folds on the requested type(s)) per call

    # --- the negotiation call is wired (requested type(s), whole Accept value)
    cparams = _param_names(callee)
    if len(cparams) != 2:
        raise UnknownIdiom('%s takes %s' % (callee.qual, cparams))
    for c in calls:
        slots: Dict[int, ast.AST] = dict(enumerate(c.args))
        for k in c.keywords:
            if k.arg not in cparams or cparams.index(k.arg) in slots:
                raise UnknownIdiom('%s: arguments of %s' % (f.qual, short(c, 80)))
            slots[cparams.index(k.arg)] = k.value
        if sorted(slots) != [0, 1] or any(isinstance(a, ast.Starred) for a in slots.values()):
            raise UnknownIdiom('%s: arguments of %s' % (f.qual, short(c, 80)))

        def is_wanted(e):
            return wanted_folds(e) is not None

        straight = is_wanted(slots[0]) and A.whole_modulo_case(slots[1]) is not None
        swapped = is_wanted(slots[1]) and A.whole_modulo_case(slots[0]) is not None
        if not straight and not swapped:
            raise UnknownIdiom('%s: arguments of %s' % (f.qual, short(c, 80)))
        run.check(straight, '%s(): %s() receives the requested media type(s) and the whole Accept header value, in that order' % (
            name, callee.name), f, c, runtime_witness='the Accept header is parsed as a media type and the requested type as the header')
        # both sides of the negotiation in ONE case form: match_score() compares types, subtypes and parameter VALUES
        # case-sensitively, so a fold (CASE_FOLDS) of the header text only - or of the requested type(s) only - makes a
        # type spelled the same on both sides a mismatch, and lets differently spelled parameter values match
        w_e, a_e = (slots[0], slots[1]) if straight else (slots[1], slots[0])
        w_folds, w_site = wanted_folds(w_e)
        a_folds = A.whole_modulo_case(a_e)
        call_sides.append((a_folds, w_folds))
        what = '%s(): the requested media type(s) and the Accept header value reach %s() in the same case form (case folds on the ' \
               'header: %s; on the requested type(s): %s) - types, subtypes and parameter values are compared as they are spelled' % (
                   name, callee.name, '/'.join(sorted(a_folds)) or 'none', '/'.join(sorted(w_folds)) or 'none')
        if a_folds == w_folds:
            if a_folds:
                raise UnknownIdiom('%s: both sides of %s are case-folded (%s) - parameter values are case-sensitive; not decided' % (
                    f.qual, short(c, 60), '/'.join(sorted(a_folds))))
            run.ok(what, f.loc(c), c)
        else:
            if a_folds - w_folds:
                site = A.fold_site(a_e)
                run.fail(what, f, site, where=f.loc(site), witness=['%s applied to the Accept header text only, before %s' % (
                    '/'.join(sorted(a_folds - w_folds)), short(c, 80))], runtime_witness=_R10_FOLD_WITNESS)
            if w_folds - a_folds:
                run.fail(what, f, w_site, where=f.loc(w_site), witness=['%s applied to the requested type(s) only, before %s' % (
                    '/'.join(sorted(w_folds - a_folds)), short(c, 80))], runtime_witness=_R10_FOLD_WITNESS)

    # --- every value the method can hand out
    def leaves(e, stmt, conds, depth=0):
        e = _unwrap_cast(e)
        if depth > 8:
            raise UnknownIdiom('%s: value %s' % (f.qual, short(e, 60)))
        if isinstance(e, ast.IfExp):
            yield from leaves(e.body, stmt, conds + [(e.test, True)], depth + 1)
            yield from leaves(e.orelse, stmt, conds + [(e.test, False)], depth + 1)
        elif isinstance(e, ast.BoolOp) and isinstance(e.op, ast.Or):
            for i, v in enumerate(e.values):
                prior = [(x, False) for x in e.values[:i]]
                if i < len(e.values) - 1:
                    for leaf, st2, cs in leaves(v, stmt, conds + prior, depth + 1):
                        yield leaf, st2, cs + [(leaf, True)]        # handed out only when truthy
                else:
                    yield from leaves(v, stmt, conds + prior, depth + 1)
        elif isinstance(e, ast.Name) and e.id not in neg_names and _assignments(f.node, e.id) \
                and all(v2 is not None and isinstance(s2, (ast.Assign, ast.AnnAssign)) for s2, v2 in _assignments(f.node, e.id)):
            for s2, v2 in _assignments(f.node, e.id):
                yield from leaves(v2, s2, conds, depth + 1)
        else:
            yield e, stmt, conds

    def eq_target(e):
        """the case folds on an allowed target of the shortcut equality (the requested type; '*/*' has no letters: 'any');
        None when `e` is not one"""
        if name != 'client_accepts':
            return None
        if p.fold(f.module, _unwrap_cast(e), f.cls, f) == ANY_TYPE:
            return 'any'
        r = wanted_folds(e)
        return None if r is None else r[0]

    def same_form(e, hs, ts) -> bool:
        """the shortcut looks at the header / the requested type in the case form the negotiation call receives them in
        (a fold applied before BOTH is the call's verdict above); any other mix of case forms is not read"""
        for a, w in call_sides:
            if any(h != a for h in hs) or any(t != 'any' and t != w for t in ts):
                raise UnknownIdiom('%s: %s compares another case form than the negotiation call receives' % (f.qual, short(e, 60)))
        return True

    def eq_atom(e) -> Optional[bool]:
        """True: `e` states whole-Accept == an allowed target; False: it states the negation; None: neither"""
        if isinstance(e, ast.Compare) and len(e.ops) == 1:
            l, r, op = e.left, e.comparators[0], e.ops[0]
            if isinstance(op, (ast.Eq, ast.NotEq)):
                for h, t in ((l, r), (r, l)):
                    hf, tf = A.whole_modulo_case(h), eq_target(t)
                    if hf is not None and tf is not None and same_form(e, [hf], [tf]):
                        return isinstance(op, ast.Eq)
            r = _unwrap_cast(r)
            if isinstance(op, (ast.In, ast.NotIn)) and A.whole_modulo_case(l) is not None and isinstance(r, (ast.Tuple, ast.List, ast.Set)) \
                    and r.elts and all(eq_target(x) is not None for x in r.elts) \
                    and same_form(e, [A.whole_modulo_case(l)], [eq_target(x) for x in r.elts]):
                return isinstance(op, ast.In)
        return None

    def establishes(e, truth: bool) -> bool:
        a = eq_atom(e)
        if a is not None:
            return a == truth
        if isinstance(e, ast.UnaryOp) and isinstance(e.op, ast.Not):
            return establishes(e.operand, not truth)
        if isinstance(e, ast.BoolOp):
            every = (isinstance(e.op, ast.Or) and truth) or (isinstance(e.op, ast.And) and not truth)
            rs = [establishes(v, truth) for v in e.values]
            return all(rs) if every else any(rs)
        return False

    handlers = [n.id for n in cfg.live_nodes() if n.kind == 'handler']
    n_partial = 0
    seen: Set[Tuple[int, str]] = set()
    for r in _returns(f):
        if r.value is None:
            raise UnknownIdiom('%s: bare return' % f.qual)
        for leaf, stmt, conds in leaves(r.value, r, []):
            nids = cfg.nodes_for(stmt)
            if not nids:
                continue                                       # dead code
            if handlers and all(flow.dominated_by_nodes(cfg, nid, handlers) for nid in nids):
                continue                                       # the answer for an unparsable header: R5
            key = (id(stmt), unparse(leaf) + repr([(unparse(t), v) for t, v in conds]))
            if key in seen:
                continue
            seen.add(key)
            if negotiated(leaf):
                if name == 'client_accepts':
                    while isinstance(leaf, ast.Call) and isinstance(leaf.func, ast.Name) and leaf.func.id == 'bool' and len(leaf.args) == 1 \
                            and not leaf.keywords:
                        leaf = leaf.args[0]
                    kind = _positivity(leaf, True, is_neg)
                    if kind == 'unknown':
                        raise UnknownIdiom('%s: the quality is turned into the answer by %s' % (f.qual, short(leaf, 60)))
                    run.check(kind == 'strict', 'client_accepts(): the negotiated answer is "the quality is not zero" (strict)', f, leaf,
                              where=f.loc(stmt), runtime_witness="Accept: 'text/plain;q=0' -> client_accepts('text/plain') is True")
                else:
                    if not is_neg(leaf):
                        raise UnknownIdiom('%s: the negotiated choice is rewritten by %s' % (f.qual, short(leaf, 60)))
                    run.ok('client_prefers(): the negotiated choice is handed out as it is', f.loc(stmt), leaf)
                continue
            if isinstance(leaf, ast.Constant):
                outcomes = [bool(leaf.value)]
            elif name == 'client_accepts':
                outcomes = [True, False]                       # a boolean expression that IS the answer
                if conds and conds[-1][0] is leaf:
                    outcomes = [True]                          # a disjunct: handed out only when true
            else:
                outcomes = [True]
            for positive in outcomes:
                cs = list(conds)
                if not isinstance(leaf, ast.Constant) and name == 'client_accepts' and not (conds and conds[-1][0] is leaf):
                    cs.append((leaf, positive))
                dom = []
                for n in cfg.live_nodes():
                    if n.kind != 'test':
                        continue
                    for (y, l) in cfg.succ[n.id]:
                        if l in ('T', 'F') and all(flow.dominated_by_edge(cfg, nid, (n.id, y, l)) for nid in nids):
                            dom.append((n.ast, l == 'T'))
                deciding = cs + [(t, v) for t, v, _ in _deciding_tests(cfg, roles, stmt, nids)]
                partial = [(t, v) for t, v in deciding if A.partial_constructs(t)]
                what = '%s(): %s answer given without asking %s() is %s by a test on a part of the header text (%s)' % (
                    name, 'a positive' if positive else 'a negative', callee.name,
                    "decided by the EQUALITY of the whole Accept value with the requested type or '*/*' - never"
                    if name == 'client_accepts' and positive else 'never decided', '/'.join(PARTIAL_TEXT_TESTS[:4]) + '/in/...')
                if positive and any(establishes(t, v) for t, v in cs + dom):
                    run.ok(what, f.loc(stmt), stmt if isinstance(leaf, ast.Constant) else leaf)
                    continue
                if partial:
                    for t, v in partial:
                        n_partial += 1
                        run.fail(what, f, t, where=f.loc(t),
                                 witness=['%s is handed out when %s is %s' % (short(leaf, 40), short(t, 60), str(v).lower())] +
                                         ['reads a part of the header: %s' % short(x, 60) for x in A.partial_constructs(t)[:3]],
                                 runtime_witness=_R10_WITNESS)
                    continue
                if positive:
                    raise UnknownIdiom('%s: %s is answered without the negotiation under %s' % (
                        f.qual, short(leaf, 40), ' and '.join('%s is %s' % (short(t, 40), str(v).lower()) for t, v in deciding) or 'no test'))
    if not n_partial:
        run.ok('%s(): no answer is decided by a test on a part of the Accept header text' % name, f.loc())


def local_names_bound(f: Func) -> Set[str]:
    return {n.id for n in walk_self(f.node) if isinstance(n, ast.Name) and isinstance(n.ctx, ast.Store)}


def r10_negotiated_answers(run):
    p = run.project
    done: Set[str] = set()
    for cq in ('falcon.request.Request', 'falcon.asgi.request.Request'):
        p.cls(cq)
        for name in sorted(NEGOTIATORS):
            f = p.lookup_method(cq, name)
            if f is None:
                raise AnchorError('%s.%s not found' % (cq, name))
            if f.qual in done:
                continue
            done.add(f.qual)
            _negotiated_answers(run, p, f, name, NEGOTIATORS[name])


# ---------------------------------------------------------------------------
# R12 every consumer of a Handlers mapping looks a handler up through the
# resolver (added after seeded change s8-c11-1: the ASGI server-sent-events
# branch fetched the JSON handler with `media_handlers.get(MEDIA_JSON)`)
# ---------------------------------------------------------------------------
#
# "Resolving a content type returns the handler the current mapping designates
# by the matching rule" holds for a consumer only if it ASKS the resolver.  A
# plain mapping read sees exact keys only, so a handler registered as
# 'application/json; charset=utf-8' or 'application/*' is found by resp.media
# (which resolves) and missed by the consumer that reads the dict.
#
# The rule sweeps the whole package (falcon/media/handlers.py itself - the
# implementation of the mapping, decided by R3/R4 - excepted) for reads of an
# attribute named `media_handlers`:
#   * the owner classes are the classes whose __init__ stores
#     `self.media_handlers = ...`; the stored value says whether the attribute
#     is a Handlers (a constructor call of Handlers or `<class attr that is a
#     Handlers(...)>.copy()`) or a plain mapping (dict display / dict(...):
#     WebSocketOptions, keyed by payload type, has no matching rule);
#   * the receiver of `.media_handlers` is typed through the attribute / the
#     parameter it is read from: class-level annotations `name: T`,
#     `self.name = T()` / `self.name = param` with an annotated parameter,
#     annotated parameters, locals bound once;
#   * each read is classified by what is done with it (frozen tables below):
#     `._resolve(...)` is a lookup through the resolver; registrations / removals
#     and key enumerations (`for k in h`, `k in h`, len(), list(), .keys())
#     obtain no handler by key; `.get(k)`, `h[k]`, `.items()`, `.values()`,
#     `.data` hand out a handler by EXACT key -> violation when the mapping is a
#     Handlers; anything else (passed on to a call, stored in an attribute,
#     returned) is an unknown idiom when the mapping is - or may be - a
#     Handlers, and ignored when it is a plain mapping.

RESOLVE_USES = {RESOLVER: 'asks the resolver'}
REGISTRATION_USES = {
    'update': 'registers handlers', '__setitem__': 'registers a handler', 'setdefault': 'registers a default handler',
    'pop': 'removes a handler', 'popitem': 'removes a handler', 'clear': 'removes the handlers', '__delitem__': 'removes a handler',
    'copy': 'copies the mapping (R3: through the constructor)',
}
KEY_USES = {'keys': 'enumerates the registered keys', '__iter__': 'enumerates the registered keys', '__len__': 'counts the keys',
            '__contains__': 'exact-key membership (no handler obtained)'}
KEY_CALLS = ('list', 'tuple', 'sorted', 'set', 'frozenset', 'len', 'iter', 'reversed', 'enumerate', 'bool')
EXACT_READS = {
    'get': 'dict.get() sees exact keys only', '__getitem__': 'subscripting sees exact keys only',
    'items': 'hands out the handlers by exact key', 'values': 'hands out the handlers without matching',
    DATA: 'reads the underlying dict: exact keys only',
}
_R12_WITNESS = "resp_options.media_handlers = Handlers({'application/json; charset=utf-8': custom}) (or 'application/*'): resp.media is " \
               'serialised by `custom` (the resolver matches it), the consumer that reads the dict gets None / KeyError and uses the ' \
               'builtin handler instead'
_R12_SKIP_MODULES = ('falcon.media.handlers',)
_R12_OUT_OF_SCOPE = ('falcon.bench', 'falcon.cmd')


def _classes_in_annotation(p, module, ann, func=None) -> Set[str]:
    """qualified names of the package classes mentioned in an annotation (Optional[T], 'T', T | None ...)"""
    if isinstance(ann, ast.Constant) and isinstance(ann.value, str):
        try:
            ann = ast.parse(ann.value, mode='eval').body
        except SyntaxError:
            return set()
    out = set()
    for n in ast.walk(ann):
        if isinstance(n, (ast.Name, ast.Attribute)):
            q = p.resolve_expr(module, n, func)
            if q in p.classes:
                out.add(q)
    return out


class _HandlersTyping:
    """Who owns a `media_handlers`, of which kind, and which attribute / parameter holds such an owner."""

    def __init__(self, p):
        self.p = p
        self.kind: Dict[str, str] = {}           # owner class qual -> 'handlers' | 'plain'
        self.why: Dict[str, str] = {}
        for cq, c in sorted(p.classes.items()):
            if cq.startswith(_R12_OUT_OF_SCOPE) or c.module.name in _R12_SKIP_MODULES:
                continue
            init = c.methods.get('__init__')
            if init is None:
                continue
            a = init.node.args
            pos = a.posonlyargs + a.args
            if not pos:
                continue
            me = pos[0].arg
            vals = [v for n in walk_self(init.node) if isinstance(n, (ast.Assign, ast.AnnAssign)) and n.value is not None
                    for t in (n.targets if isinstance(n, ast.Assign) else [n.target])
                    if isinstance(t, ast.Attribute) and t.attr == HANDLERS_ATTR and isinstance(t.value, ast.Name) and t.value.id == me
                    for v in [n.value]]
            if not vals:
                continue
            kinds = {self._value_kind(c, init, v) for v in vals}
            if len(kinds) != 1:
                raise UnknownIdiom('%s.__init__ stores %s of different kinds' % (cq, HANDLERS_ATTR))
            self.kind[cq] = kinds.pop()
            self.why[cq] = short(vals[0], 60)
        if not any(k == 'handlers' for k in self.kind.values()):
            raise AnchorError('no class whose __init__ stores self.%s = Handlers(...)' % HANDLERS_ATTR)
        # attribute name -> owner classes an attribute of that name may hold
        self.attr_types: Dict[str, Set[str]] = {}
        for cq, c in p.classes.items():
            if cq.startswith(_R12_OUT_OF_SCOPE):
                continue
            for s in c.node.body:
                if isinstance(s, ast.AnnAssign) and isinstance(s.target, ast.Name):
                    for t in _classes_in_annotation(p, c.module, s.annotation):
                        if t in self.kind:
                            self.attr_types.setdefault(s.target.id, set()).add(t)
            for m in c.methods.values():
                ma = m.node.args
                mpos = ma.posonlyargs + ma.args
                if not mpos:
                    continue
                for n in walk_self(m.node):
                    if not isinstance(n, (ast.Assign, ast.AnnAssign)) or n.value is None:
                        continue
                    for t in (n.targets if isinstance(n, ast.Assign) else [n.target]):
                        if isinstance(t, ast.Attribute) and isinstance(t.value, ast.Name) and t.value.id == mpos[0].arg:
                            for o in self._expr_owners(m, n.value, 0, stored=True) or ():
                                self.attr_types.setdefault(t.attr, set()).add(o)

    def _value_kind(self, c: Class, init: Func, v) -> str:
        p = self.p
        v = _unwrap_cast(v)
        if isinstance(v, (ast.Dict, ast.DictComp)):
            return 'plain'
        if isinstance(v, ast.Call):
            t = p.resolve_callable(init, v.func)
            if isinstance(t, Class):
                if t.qual == HANDLERS or p.is_subclass(t.qual, HANDLERS):
                    return 'handlers'
            if t in ('builtins.dict', 'collections.OrderedDict'):
                return 'plain'
            if isinstance(v.func, ast.Attribute) and v.func.attr == 'copy' and not v.args and not v.keywords:
                ch = attr_chain_of(v.func.value)
                if ch and len(ch) == 2 and ch[0] in (init.node.args.args[0].arg, c.node.name):
                    kinds = self._class_attr_kinds(c, init, ch[1])
                    if len(kinds) == 1:
                        return kinds.pop()
        raise UnknownIdiom('%s.__init__: value of self.%s (%s) is neither a Handlers(...) nor a dict' % (c.qual, HANDLERS_ATTR, short(v, 60)))

    def _class_attr_kinds(self, c: Class, init: Func, name: str) -> Set[str]:
        """kinds of the values a class attribute is given: in the class body (also under `if TYPE_CHECKING`; a None placeholder
        is skipped), by its annotation, and by module-level stores `Class.name = value` anywhere in the package"""
        p = self.p
        kinds: Set[str] = set()
        for s in ast.walk(c.node):
            if isinstance(s, ast.AnnAssign) and isinstance(s.target, ast.Name) and s.target.id == name:
                if HANDLERS in _classes_in_annotation(p, c.module, s.annotation):
                    kinds.add('handlers')
                if s.value is not None and not (isinstance(s.value, ast.Constant) and s.value.value is None):
                    kinds.add(self._value_kind(c, init, s.value))
            elif isinstance(s, ast.Assign) and any(isinstance(t, ast.Name) and t.id == name for t in s.targets):
                if not (isinstance(s.value, ast.Constant) and s.value.value is None):
                    kinds.add(self._value_kind(c, init, s.value))
        for mod in p.modules.values():
            for s in mod.tree.body:
                if isinstance(s, ast.Assign):
                    for t in s.targets:
                        if isinstance(t, ast.Attribute) and t.attr == name and p.resolve_expr(mod, t.value) == c.qual:
                            kinds.add(self._value_kind(c, _ModFunc(mod), s.value))
        return kinds

    def _expr_owners(self, f: Func, e, depth=0, stored=False) -> Optional[Set[str]]:
        """owner classes the value of `e` may be an instance of; None when that cannot be told"""
        p = self.p
        if depth > 8:
            return None
        e = _unwrap_cast(e)
        if isinstance(e, ast.Call):
            t = p.resolve_callable(f, e.func)
            if isinstance(t, Class):
                return {t.qual} if t.qual in self.kind else (None if not stored else set())
            return None if not stored else set()
        if isinstance(e, (ast.IfExp, ast.BoolOp)):
            parts = [e.body, e.orelse] if isinstance(e, ast.IfExp) else e.values
            out: Set[str] = set()
            for x in parts:
                if isinstance(x, ast.Constant) and x.value is None:
                    continue
                o = self._expr_owners(f, x, depth + 1, stored)
                if o is None:
                    return None
                out |= o
            return out
        if isinstance(e, ast.Name):
            a = f.node.args
            for prm in a.posonlyargs + a.args + a.kwonlyargs:
                if prm.arg == e.id:
                    if _assignments(f.node, e.id):
                        return None if not stored else set()
                    if prm.annotation is None:
                        return None if not stored else set()
                    o = {t for t in _classes_in_annotation(p, f.module, prm.annotation, f) if t in self.kind}
                    return o if o or stored else None
            if stored:
                return set()
            binds = _assignments(f.node, e.id)
            if len(binds) == 1 and binds[0][1] is not None:
                return self._expr_owners(f, binds[0][1], depth + 1)
            return None
        if isinstance(e, ast.Attribute):
            if stored:
                return set()
            o = self.attr_types.get(e.attr)
            return set(o) if o else None
        return None if not stored else set()

    def receiver_kind(self, f: Func, recv) -> str:
        """'handlers' | 'plain' | 'unknown' for the object `.media_handlers` is read from"""
        a = f.node.args
        pos = a.posonlyargs + a.args
        if isinstance(recv, ast.Name) and pos and recv.id == pos[0].arg and f.cls is not None and f.parent is None:
            owners = {q for q in self.kind if q == f.cls.qual or self.p.is_subclass(f.cls.qual, q)}
        else:
            owners = self._expr_owners(f, recv)
        if not owners:
            return 'unknown'
        kinds = {self.kind[o] for o in owners}
        return kinds.pop() if len(kinds) == 1 else 'unknown'


def attr_chain_of(e) -> Optional[Tuple[str, ...]]:
    out = []
    while isinstance(e, ast.Attribute):
        out.append(e.attr)
        e = e.value
    if isinstance(e, ast.Name):
        out.append(e.id)
        return tuple(reversed(out))
    return None


def _use_of(f: Func, node, parent, depth=0):
    """(category, detail, construct node) of every use of the mapping value `node`;
    category in resolve / registration / keys / exact / define / other."""
    par = parent.get(id(node))
    if isinstance(par, ast.Call) and par.func is not node and (dotted(par.func) or '').split('.')[-1] == 'cast' and len(par.args) == 2 \
            and par.args[1] is node:
        yield from _use_of(f, par, parent, depth)
        return
    if isinstance(par, ast.Attribute) and par.value is node:
        if isinstance(par.ctx, ast.Load):
            for table, cat in ((RESOLVE_USES, 'resolve'), (REGISTRATION_USES, 'registration'), (KEY_USES, 'keys'), (EXACT_READS, 'exact')):
                if par.attr in table:
                    gp = parent.get(id(par))
                    cons = gp if isinstance(gp, ast.Call) and gp.func is par else par
                    if par.attr == DATA:
                        cons = par
                    yield cat, '.%s: %s' % (par.attr, table[par.attr]), cons
                    return
        yield 'other', 'attribute .%s' % par.attr, par
        return
    if isinstance(par, ast.Subscript) and par.value is node:
        if isinstance(par.ctx, ast.Load):
            yield 'exact', '[...]: %s' % EXACT_READS['__getitem__'], par
        else:
            yield 'registration', '[...] = / del: %s' % REGISTRATION_USES['__setitem__'], par
        return
    if isinstance(par, ast.Compare) and node in par.comparators and len(par.ops) == 1 and isinstance(par.ops[0], (ast.In, ast.NotIn)):
        yield 'keys', 'in: %s' % KEY_USES['__contains__'], par
        return
    if isinstance(par, (ast.For, ast.AsyncFor, ast.comprehension)) and par.iter is node:
        yield 'keys', 'iteration: %s' % KEY_USES['__iter__'], node
        return
    if isinstance(par, ast.Call) and node in par.args and isinstance(par.func, ast.Name) and par.func.id in KEY_CALLS \
            and not _assignments(f.node, par.func.id):
        yield 'keys', '%s(): %s' % (par.func.id, KEY_USES['__iter__']), par
        return
    if isinstance(par, ast.Starred) and par.value is node:
        yield 'keys', 'unpacking: %s' % KEY_USES['__iter__'], par
        return
    if isinstance(par, (ast.Assign, ast.AnnAssign)) and par.value is node:
        targets = par.targets if isinstance(par, ast.Assign) else [par.target]
        if len(targets) == 1 and isinstance(targets[0], ast.Name) and depth < 4:
            name = targets[0].id
            binds = _assignments(f.node, name)
            if len(binds) == 1 and name not in {x.arg for x in f.node.args.posonlyargs + f.node.args.args + f.node.args.kwonlyargs}:
                loads = [n for n in walk_self(f.node) if isinstance(n, ast.Name) and n.id == name and isinstance(n.ctx, ast.Load)]
                nested_reads = [n for g in f.nested.values() for n in ast.walk(g.node) if isinstance(n, ast.Name) and n.id == name]
                if not nested_reads:
                    for ld in loads:
                        yield from _use_of(f, ld, parent, depth + 1)
                    return
        yield 'other', 'stored: %s' % short(par, 60), par
        return
    if isinstance(par, (ast.Assign, ast.AnnAssign, ast.AugAssign, ast.Delete)) and not isinstance(getattr(node, 'ctx', ast.Load()), ast.Load):
        yield 'define', 'the attribute itself is (re)bound', par
        return
    if isinstance(par, ast.Expr):
        yield 'keys', 'bare expression', par
        return
    yield 'other', 'used in %s' % short(par, 60) if par is not None else 'unknown context', par if par is not None else node


def r12_lookups_through_resolver(run):
    """Every consumer of a Handlers mapping (attribute `media_handlers` of the options classes) that obtains a handler FOR USE
    asks `_resolve(...)`; a plain mapping read (`.get(k)`, `[k]`, `.items()`, `.values()`, `.data`) outside falcon/media/handlers.py
    is a violation.  W: handlers registered under 'application/json; charset=utf-8' only - resp.media uses it, an SSE event
    serialised through `media_handlers.get(MEDIA_JSON)` does not."""
    p = run.project
    typing_ = _HandlersTyping(p)
    for cq, k in sorted(typing_.kind.items()):
        run.ok('%s.%s is a %s' % (cq.rsplit('.', 1)[-1], HANDLERS_ATTR, 'Handlers mapping (matching rule applies)' if k == 'handlers'
                                  else 'plain mapping (no matching rule; out of scope)'), p.cls(cq).methods['__init__'].loc(), typing_.why[cq])
    n_resolve = 0
    for mname, mod in sorted(p.modules.items()):
        if mname.startswith(_R12_OUT_OF_SCOPE) or mname in _R12_SKIP_MODULES:
            continue
        all_nodes = [n for n in ast.walk(mod.tree) if isinstance(n, ast.Attribute) and n.attr == HANDLERS_ATTR]
        if not all_nodes:
            continue
        seen = set()
        for f in mod.all_funcs:
            nodes = [n for n in walk_self(f.node) if isinstance(n, ast.Attribute) and n.attr == HANDLERS_ATTR]
            if not nodes:
                continue
            run.use(f)
            parent = enclosing_map(f.node)
            for node in nodes:
                seen.add(id(node))
                if not isinstance(node.ctx, ast.Load):
                    continue            # (re)binding of the attribute: the owners' __init__ stores are read by _HandlersTyping
                kind = typing_.receiver_kind(f, node.value)
                for cat, detail, cons in _use_of(f, node, parent):
                    if kind == 'plain':
                        continue
                    if cat == 'exact':
                        if kind == 'unknown':
                            raise UnknownIdiom('%s: %s reads a %s whose owner the rule cannot type' % (f.qual, short(cons, 70), HANDLERS_ATTR))
                        run.fail('a handler is obtained from a Handlers mapping through the resolver (the matching rule: exact key, '
                                 'else best match, else the default), never by a plain mapping read', f, cons, where=f.loc(cons),
                                 witness=['%s is a Handlers mapping (%s)' % (short(node, 60), detail)], runtime_witness=_R12_WITNESS)
                    elif cat == 'resolve':
                        n_resolve += 1
                        run.ok('%s obtains its handler through the resolver' % f.name, f.loc(cons), short(cons, 100))
                    elif cat in ('registration', 'keys'):
                        run.ok('%s: no handler is looked up by key (%s)' % (f.name, detail), f.loc(cons), short(cons, 100))
                    elif cat == 'define':
                        continue
                    else:
                        raise UnknownIdiom('%s: %s of a %s mapping (%s) - not a resolver call, registration, key enumeration or '
                                           'plain read' % (f.qual, detail, kind, short(cons, 70)))
        rest = [n for n in all_nodes if id(n) not in seen]
        if rest:
            raise UnknownIdiom('%s: %s used outside a function (%s)' % (mname, HANDLERS_ATTR, short(rest[0], 60)))
    if n_resolve < 1:
        raise AnchorError('no consumer of a Handlers mapping calls %s' % RESOLVER)


# ---------------------------------------------------------------------------
# R13 every parsed parameter other than q takes part in matching (added after
# seeded change s8-c11-2: _MediaRange.parse() dropped the parameters written
# AFTER `q=`, an RFC 7231 accept-ext reading that RFC 9110 removed)
# ---------------------------------------------------------------------------
#
# match_score() ranks by "exact parameter match, number of matching
# parameters" and refuses a shared parameter with another value - over
# `self.params`.  That is the documented rule only if the params a range is
# built with are ALL the parameters the header helper parsed, minus the weight:
# the position of `q` among them means nothing.  Decided by evaluating
# _MediaRange.parse() itself (a concrete interpreter, _ParseModel; nothing from
# the analysed tree is executed - the header helper is replaced by the input of
# the model, the constructor by a recorder) on every ORDERED subset of the
# parameter names {'a', 'q', 'b'} (q valid): the params slot of the range built
# must equal the parsed mapping minus exactly the key 'q'.  A statement outside
# the interpreter's language is an unknown idiom.

_R13_WITNESS = "quality('text/html', 'text/html;q=0.5;level=1, text/html;q=0.2') is 0.5 instead of 0.2; with Accept " \
               "'text/plain;q=0.8;format=flowed, */*;q=0' the refused 'text/plain;format=fixed' is accepted with q=0.8"
_PM_SOURCES = {MEDIATYPES + '._parse_media_type_header': lambda items: ('t', 's', dict(items)),
               MEDIATYPES + '.parse_header': lambda items: ('t/s', dict(items))}
_PM_BUILTINS = ('float', 'int', 'str', 'bool', 'list', 'dict', 'tuple', 'set', 'frozenset', 'sorted', 'len', 'iter', 'next', 'enumerate',
                'zip', 'range', 'reversed', 'min', 'max', 'any', 'all', 'sum', 'abs', 'isinstance', 'filter', 'map',
                'Exception', 'ValueError', 'TypeError', 'KeyError', 'IndexError', 'LookupError', 'StopIteration', 'AttributeError',
                'ArithmeticError', 'OverflowError', 'RuntimeError', 'BaseException')
_PM_MODULES = ('math', 'itertools', 'operator')
_PM_DATA = (dict, list, tuple, str, set, frozenset, float, int, bool, type(None))


class _PMRaise(Exception):
    """the interpreted function raises `value` (a real builtin exception instance or a _PMPkgExc)"""

    def __init__(self, value):
        Exception.__init__(self)
        self.value = value


class _PMReturn(Exception):
    def __init__(self, value):
        Exception.__init__(self)
        self.value = value


class _PMBreak(Exception):
    pass


class _PMContinue(Exception):
    pass


class _PMPkgClass:
    def __init__(self, qual):
        self.qual = qual


class _PMModule:
    def __init__(self, module):
        self.module = module


class _PMPkgExc:
    def __init__(self, qual):
        self.qual = qual


class _PMSource:
    def __init__(self, qual):
        self.qual = qual


class _PMBuilt:
    def __init__(self, slots, call):
        self.slots, self.call = slots, call


class _ParseModel:
    """Concrete interpreter of one small function over plain data (dict / list / tuple / str / set / numbers).

    statements: assignments (names, tuple targets, subscripts; annotated, augmented), del, expression statements, if, for, while
    (bounded), try/except/else/finally, raise [from], return, break, continue, pass.
    expressions: constants, locals, displays, comprehensions, subscripts and slices, comparisons, and/or/not, arithmetic,
    conditional expressions, := , lambdas, f-strings, calls of: the tabled builtins (_PM_BUILTINS), math / itertools / operator
    functions, public methods of the data values, the header helper (-> the model input), the range constructor (-> recorded),
    exception classes of the package (-> a token)."""

    MAX_STEPS = 4000

    def __init__(self, p, f: Func, rc: Class, slots: List[str]):
        self.p, self.f, self.rc, self.slots = p, f, rc, slots
        a = f.node.args
        pos = a.posonlyargs + a.args
        if len(pos) != 2 or a.vararg or a.kwarg or a.kwonlyargs or not any('classmethod' in d for d in f.decorators):
            raise UnknownIdiom('%s is not a classmethod of one argument' % f.qual)
        self.clsname, self.argname = pos[0].arg, pos[1].arg
        self.items = ()
        self.removed: List[Tuple[ast.AST, object]] = []
        self.sources = 0
        self.steps = 0
        self.node = None
        self.callnode = None

    # -- driver
    def run(self, items):
        self.items = tuple(items)
        self.removed = []
        self.sources = 0
        self.steps = 0
        env = {self.argname: 'r'}
        try:
            self.block(self.f.node.body, env)
        except _PMReturn as r:
            return 'returned', r.value
        except _PMRaise as r:
            return 'raised', r.value
        except (_PMBreak, _PMContinue):
            raise _OutOfModel('break / continue outside a loop')
        return 'returned', None

    def tick(self, node):
        self.steps += 1
        self.node = node
        if self.steps > self.MAX_STEPS:
            raise _OutOfModel('too many steps (a loop that does not end on the model input?)')

    # -- calls of real (pure, tabled) callables
    def native(self, fn, args, kwargs, node):
        try:
            return fn(*args, **kwargs)
        except (_OutOfModel, _PMRaise, AnalysisError):
            raise
        except (_PMReturn, _PMBreak, _PMContinue):
            raise _OutOfModel('control flow out of a callback in %s' % short(node, 60))
        except RecursionError:
            raise
        except Exception as ex:  # noqa: BLE001 - what the builtin operation raises is what the function sees
            raise _PMRaise(ex)

    def logged_method(self, obj, name, node):
        m = getattr(obj, name)
        if isinstance(obj, dict) and name in ('pop', 'popitem', 'clear', '__delitem__'):
            def wrapper(*a, **k):
                before = dict(obj)
                r = m(*a, **k)
                for key in before:
                    if key not in obj:
                        self.removed.append((self.callnode if isinstance(node, ast.Attribute) and self.callnode is not None else node, key))
                return r
            return wrapper
        return m

    # -- expressions
    def name(self, e, env):
        if e.id in env:
            return env[e.id]
        if e.id == self.clsname:
            return _PMPkgClass(self.rc.qual)
        if e.id in local_names_bound(self.f):
            raise _PMRaise(UnboundLocalError(e.id))
        q = self.p.resolve_expr(self.f.module, e, self.f)
        return self.resolved(q, e)

    def resolved(self, q, e):
        import builtins
        import importlib
        lit = _module_literal(self.p, self.f, e)       # `_Q = 'q'` bound once at module level is its value
        if lit is not UNKNOWN:
            return lit
        if q is None:
            raise _OutOfModel('name %s' % short(e, 40))
        if q in self.p.classes:
            return _PMPkgClass(q)
        if q in _PM_SOURCES:
            return _PMSource(q)
        if q.startswith('builtins.') and q[9:] in _PM_BUILTINS:
            return getattr(builtins, q[9:])
        mod, _, attr = q.rpartition('.')
        if mod in _PM_MODULES and not attr.startswith('_'):
            m = importlib.import_module(mod)           # stdlib only; never the analysed tree
            if hasattr(m, attr):
                return getattr(m, attr)
        raise _OutOfModel('%s (%s) is outside the modelled language' % (short(e, 40), q))

    def ev(self, e, env):
        self.tick(e)
        e = _unwrap_cast(e)
        if isinstance(e, ast.Constant):
            return e.value
        if isinstance(e, ast.Name):
            return self.name(e, env)
        if isinstance(e, ast.Attribute):
            ch = attr_chain_of(e)
            if ch is not None and ch[0] not in env and ch[0] != self.clsname:
                q = self.p.resolve_expr(self.f.module, e, self.f)
                if q is not None:
                    return self.resolved(q, e)
            base = self.ev(e.value, env)
            if isinstance(base, _PMPkgClass):
                c, v = self.p.lookup_class_attr(base.qual, e.attr)
                if v is not None:
                    k = self.p.fold(c.module, v, c, None)
                    return k if k is not UNKNOWN else '<%s.%s>' % (c.node.name, e.attr)
                raise _OutOfModel('%s' % short(e, 60))
            if isinstance(base, _PMModule) and not e.attr.startswith('_') and hasattr(base.module, e.attr):
                return getattr(base.module, e.attr)
            if isinstance(base, _PM_DATA) and not e.attr.startswith('_'):
                try:
                    return self.logged_method(base, e.attr, e)
                except AttributeError as ex:
                    raise _PMRaise(ex)
            raise _OutOfModel('attribute %s' % short(e, 60))
        if isinstance(e, ast.Call):
            return self.call(e, env)
        if isinstance(e, ast.Subscript):
            v = self.ev(e.value, env)
            i = self.index(e.slice, env)
            if not isinstance(v, _PM_DATA):
                raise _OutOfModel('subscript of %s' % short(e.value, 40))
            return self.native(lambda: v[i], (), {}, e)
        if isinstance(e, (ast.Tuple, ast.List, ast.Set)):
            out = []
            for x in e.elts:
                if isinstance(x, ast.Starred):
                    out.extend(self.native(list, (self.ev(x.value, env),), {}, x))
                else:
                    out.append(self.ev(x, env))
            return tuple(out) if isinstance(e, ast.Tuple) else (out if isinstance(e, ast.List) else self.native(set, (out,), {}, e))
        if isinstance(e, ast.Dict):
            d = {}
            for k, v in zip(e.keys, e.values):
                if k is None:
                    d.update(self.native(dict, (self.ev(v, env),), {}, e))
                else:
                    kk = self.ev(k, env)
                    d[kk] = self.ev(v, env)
            return d
        if isinstance(e, ast.Compare):
            left = self.ev(e.left, env)
            for op, ce in zip(e.ops, e.comparators):
                right = self.ev(ce, env)
                if isinstance(op, (ast.Is, ast.IsNot)):
                    t = (left is right) or (left == right and isinstance(left, (bool, type(None), str, int)) and type(left) is type(right))
                    t = t if isinstance(op, ast.Is) else not t
                elif isinstance(op, (ast.In, ast.NotIn)):
                    t = self.native(lambda: left in right, (), {}, e)
                    t = t if isinstance(op, ast.In) else not t
                else:
                    fn = _CMP_OPS.get(type(op))
                    if fn is None:
                        raise _OutOfModel('comparison %s' % short(e, 60))
                    t = self.native(fn, (left, right), {}, e)
                if not t:
                    return False
                left = right
            return True
        if isinstance(e, ast.BoolOp):
            v = None
            for x in e.values:
                v = self.ev(x, env)
                if bool(v) != isinstance(e.op, ast.And):
                    return v
            return v
        if isinstance(e, ast.UnaryOp):
            v = self.ev(e.operand, env)
            if isinstance(e.op, ast.Not):
                return not v
            import operator
            fn = {ast.USub: operator.neg, ast.UAdd: operator.pos, ast.Invert: operator.invert}[type(e.op)]
            return self.native(fn, (v,), {}, e)
        if isinstance(e, ast.BinOp):
            import operator
            ops = {ast.Add: operator.add, ast.Sub: operator.sub, ast.Mult: operator.mul, ast.Div: operator.truediv,
                   ast.FloorDiv: operator.floordiv, ast.Mod: operator.mod, ast.BitOr: operator.or_, ast.BitAnd: operator.and_,
                   ast.BitXor: operator.xor}
            if type(e.op) not in ops:
                raise _OutOfModel('operator in %s' % short(e, 60))
            return self.native(ops[type(e.op)], (self.ev(e.left, env), self.ev(e.right, env)), {}, e)
        if isinstance(e, ast.IfExp):
            return self.ev(e.body if self.ev(e.test, env) else e.orelse, env)
        if isinstance(e, ast.NamedExpr) and isinstance(e.target, ast.Name):
            v = self.ev(e.value, env)
            env[e.target.id] = v
            return v
        if isinstance(e, ast.Lambda):
            la = e.args
            if la.vararg or la.kwarg or la.kwonlyargs or la.defaults:
                raise _OutOfModel('lambda %s' % short(e, 60))
            names = [x.arg for x in la.posonlyargs + la.args]

            def fn(*args):
                if len(args) != len(names):
                    raise TypeError('lambda arity')
                inner = dict(env)
                inner.update(zip(names, args))
                return self.ev(e.body, inner)
            return fn
        if isinstance(e, (ast.ListComp, ast.SetComp, ast.GeneratorExp, ast.DictComp)):
            out: list = []
            self.comp(e, e.generators, dict(env), out)
            if isinstance(e, ast.ListComp):
                return out
            if isinstance(e, ast.SetComp):
                return self.native(set, (out,), {}, e)
            if isinstance(e, ast.DictComp):
                return self.native(dict, (out,), {}, e)
            return iter(out)
        if isinstance(e, ast.JoinedStr):
            return ''.join(str(x.value) if isinstance(x, ast.Constant) else '<fmt>' for x in e.values)
        raise _OutOfModel('%s expression %s' % (type(e).__name__, short(e, 60)))

    def comp(self, e, gens, env, out):
        if not gens:
            if isinstance(e, ast.DictComp):
                k = self.ev(e.key, env)
                out.append((k, self.ev(e.value, env)))
            else:
                out.append(self.ev(e.elt, env))
            return
        g = gens[0]
        if g.is_async:
            raise _OutOfModel('async comprehension')
        it = self.native(iter, (self.ev(g.iter, env),), {}, g.iter)
        while True:
            self.tick(g.iter)
            try:
                item = self.native(next, (it,), {}, g.iter)
            except _PMRaise as r:
                if isinstance(r.value, StopIteration):
                    break
                raise
            self.bind(g.target, item, env)
            if all(self.ev(c, env) for c in g.ifs):
                self.comp(e, gens[1:], env, out)

    def index(self, s, env):
        if isinstance(s, ast.Slice):
            return slice(*(None if x is None else self.ev(x, env) for x in (s.lower, s.upper, s.step)))
        return self.ev(s, env)

    def call(self, e, env):
        fn = self.ev(e.func, env)
        args = []
        for a in e.args:
            if isinstance(a, ast.Starred):
                args.extend(self.native(list, (self.ev(a.value, env),), {}, a))
            else:
                args.append(self.ev(a, env))
        kwargs = {}
        for k in e.keywords:
            if k.arg is None:
                kwargs.update(self.native(dict, (self.ev(k.value, env),), {}, e))
            else:
                kwargs[k.arg] = self.ev(k.value, env)
        if isinstance(fn, _PMPkgClass):
            if fn.qual == self.rc.qual:
                if len(args) > len(self.slots) or any(k not in self.slots for k in kwargs):
                    raise _PMRaise(TypeError('constructor arguments'))
                slots = dict(zip(self.slots, args))
                for k, v in kwargs.items():
                    if k in slots:
                        raise _PMRaise(TypeError('constructor arguments'))
                    slots[k] = v
                if set(slots) != set(self.slots):
                    raise _PMRaise(TypeError('constructor arguments'))
                return _PMBuilt(slots, e)
            sub = self.p.is_subclass(fn.qual, 'builtins.BaseException')
            if sub:
                return _PMPkgExc(fn.qual)
            raise _OutOfModel('construction of %s' % fn.qual)
        if isinstance(fn, _PMSource):
            self.sources += 1
            return _PM_SOURCES[fn.qual](self.items)
        if isinstance(fn, (_PMPkgExc, _PMBuilt)) or not callable(fn):
            raise _OutOfModel('call %s' % short(e, 60))
        self.callnode = e
        return self.native(fn, args, kwargs, e)

    # -- statements
    def bind(self, t, v, env):
        if isinstance(t, ast.Name):
            env[t.id] = v
        elif isinstance(t, (ast.Tuple, ast.List)):
            vals = self.native(list, (v,), {}, t)
            star = [i for i, x in enumerate(t.elts) if isinstance(x, ast.Starred)]
            if star:
                raise _OutOfModel('starred target %s' % short(t, 40))
            if len(vals) != len(t.elts):
                raise _PMRaise(ValueError('unpack'))
            for x, y in zip(t.elts, vals):
                self.bind(x, y, env)
        elif isinstance(t, ast.Subscript):
            obj = self.ev(t.value, env)
            i = self.index(t.slice, env)
            if not isinstance(obj, (dict, list)):
                raise _OutOfModel('store into %s' % short(t, 40))

            def store():
                obj[i] = v
            self.native(store, (), {}, t)
        else:
            raise _OutOfModel('store into %s' % short(t, 40))

    def matches(self, value, t) -> bool:
        if isinstance(t, tuple):
            return any(self.matches(value, x) for x in t)
        if isinstance(t, type) and issubclass(t, BaseException):
            if isinstance(value, BaseException):
                return isinstance(value, t)
            sub = self.p.is_subclass(value.qual, 'builtins.' + t.__name__)
            if sub is None:
                raise _OutOfModel('is %s a %s?' % (value.qual, t.__name__))
            return sub
        if isinstance(t, _PMPkgClass):
            if isinstance(value, BaseException):
                return False
            sub = self.p.is_subclass(value.qual, t.qual)
            if sub is None:
                raise _OutOfModel('is %s a %s?' % (value.qual, t.qual))
            return sub
        raise _OutOfModel('exception filter')

    def block(self, stmts, env):
        for s in stmts:
            self.stmt(s, env)

    def stmt(self, s, env):
        self.tick(s)
        if isinstance(s, ast.Expr):
            if not isinstance(s.value, ast.Constant):
                self.ev(s.value, env)
        elif isinstance(s, ast.Assign):
            v = self.ev(s.value, env)
            for t in s.targets:
                self.bind(t, v, env)
        elif isinstance(s, ast.AnnAssign):
            if s.value is not None:
                self.bind(s.target, self.ev(s.value, env), env)
        elif isinstance(s, ast.AugAssign):
            load = ast.copy_location(ast.BinOp(left=_as_load(s.target), op=s.op, right=s.value), s)
            self.bind(s.target, self.ev(load, env), env)
        elif isinstance(s, ast.Delete):
            for t in s.targets:
                if isinstance(t, ast.Name):
                    if t.id not in env:
                        raise _PMRaise(UnboundLocalError(t.id))
                    del env[t.id]
                elif isinstance(t, ast.Subscript):
                    obj = self.ev(t.value, env)
                    i = self.index(t.slice, env)
                    if not isinstance(obj, (dict, list)):
                        raise _OutOfModel('del %s' % short(t, 40))
                    self.native(self.logged_method(obj, '__delitem__', s), (i,), {}, s)
                else:
                    raise _OutOfModel('del %s' % short(t, 40))
        elif isinstance(s, ast.If):
            self.block(s.body if self.ev(s.test, env) else s.orelse, env)
        elif isinstance(s, ast.For):
            it = self.native(iter, (self.ev(s.iter, env),), {}, s.iter)
            broke = False
            while True:
                self.tick(s)
                try:
                    item = self.native(next, (it,), {}, s.iter)
                except _PMRaise as r:
                    if isinstance(r.value, StopIteration):
                        break
                    raise
                self.bind(s.target, item, env)
                try:
                    self.block(s.body, env)
                except _PMBreak:
                    broke = True
                    break
                except _PMContinue:
                    continue
            if not broke:
                self.block(s.orelse, env)
        elif isinstance(s, ast.While):
            broke = False
            while self.ev(s.test, env):
                try:
                    self.block(s.body, env)
                except _PMBreak:
                    broke = True
                    break
                except _PMContinue:
                    continue
            if not broke:
                self.block(s.orelse, env)
        elif isinstance(s, ast.Try):
            try:
                try:
                    self.block(s.body, env)
                except _PMRaise as r:
                    for h in s.handlers:
                        if h.type is None or self.matches(r.value, self.ev(h.type, env)):
                            if h.name:
                                env[h.name] = r.value
                            env.setdefault('$exc', []).append(r.value)
                            try:
                                self.block(h.body, env)
                            finally:
                                env['$exc'].pop()
                                if h.name:
                                    env.pop(h.name, None)
                            break
                    else:
                        raise
                else:
                    self.block(s.orelse, env)
            finally:
                if s.finalbody:
                    self.block(s.finalbody, env)
        elif isinstance(s, ast.Raise):
            if s.exc is None:
                cur = env.get('$exc')
                if not cur:
                    raise _PMRaise(RuntimeError('No active exception to reraise'))
                raise _PMRaise(cur[-1])
            v = self.ev(s.exc, env)
            if s.cause is not None:
                self.ev(s.cause, env)
            if isinstance(v, _PMPkgClass):
                v = _PMPkgExc(v.qual)
            elif isinstance(v, type) and issubclass(v, BaseException):
                v = v()
            if not isinstance(v, (_PMPkgExc, BaseException)):
                raise _OutOfModel('raise %s' % short(s.exc, 60))
            raise _PMRaise(v)
        elif isinstance(s, ast.Return):
            raise _PMReturn(None if s.value is None else self.ev(s.value, env))
        elif isinstance(s, ast.Break):
            raise _PMBreak()
        elif isinstance(s, ast.Continue):
            raise _PMContinue()
        elif isinstance(s, ast.Pass):
            pass
        elif isinstance(s, (ast.Import, ast.ImportFrom)):
            import importlib
            for al in s.names:
                modname = al.name if isinstance(s, ast.Import) else (s.module or '')
                if modname not in _PM_MODULES or (isinstance(s, ast.ImportFrom) and (s.level or al.name.startswith('_'))):
                    raise _OutOfModel('local import of %s' % modname)
                m = importlib.import_module(modname)            # stdlib only (tabled); never the analysed tree
                if isinstance(s, ast.Import):
                    env[al.asname or al.name] = _PMModule(m)
                elif hasattr(m, al.name):
                    env[al.asname or al.name] = getattr(m, al.name)
                else:
                    raise _OutOfModel('local import of %s.%s' % (modname, al.name))
        elif isinstance(s, ast.Assert):
            pass
        else:
            raise _OutOfModel('%s statement' % type(s).__name__.lower())


def _as_load(t):
    t2 = ast.parse(unparse(t), mode='eval').body
    return t2


def _ordered_subsets(names):
    import itertools
    for n in range(len(names) + 1):
        for combo in itertools.permutations(names, n):
            yield combo


def r13_all_parsed_params_match(run):
    """The params a media range is built with are ALL the parameters parsed from the header text minus exactly the key 'q',
    wherever `q` stands among them (position-dependent filtering - cutting at q, slicing the items, takewhile - is a violation).
    W: quality('text/html', 'text/html;q=0.5;level=1, text/html;q=0.2') -> 0.5 instead of 0.2."""
    p = run.project
    rc = p.cls(MEDIATYPES + '._MediaRange')
    f = p.func(MEDIATYPES + '._MediaRange.parse')
    run.use(f)
    slots = _ctor_slots(p, rc)
    if 'params' not in slots:
        raise AnchorError('%s: no constructor slot named params (%s)' % (rc.qual, slots))
    if not any(isinstance(c, ast.Call) and isinstance(p.resolve_callable(f, c.func), Func) and p.resolve_callable(f, c.func).qual in _PM_SOURCES
               for c in walk_self(f.node)):
        raise AnchorError('%s does not call the header helper (%s)' % (f.qual, ', '.join(sorted(q.rsplit('.', 1)[-1] for q in _PM_SOURCES))))
    if f.nested:
        raise UnknownIdiom('%s has nested functions' % f.qual)
    pm = _ParseModel(p, f, rc, slots)
    values = {'a': '1', 'b': 'x y', 'q': '0.5'}
    bad: Dict[str, Tuple[ast.AST, list]] = {}
    n_built = 0
    for names in _ordered_subsets(('a', 'q', 'b')):
        items = [(k, values[k]) for k in names]
        shown = ';'.join('%s=%s' % kv for kv in items) or '(no parameters)'
        try:
            kind, val = pm.run(items)
        except _OutOfModel as why:
            raise UnknownIdiom('%s: %s (evaluating the parameters %s)' % (f.qual, why, shown))
        if pm.sources != 1:
            raise UnknownIdiom('%s: the header helper is called %d times on one input' % (f.qual, pm.sources))
        if kind == 'raised':
            continue            # which inputs are rejected is decided by R2 / R11
        if not isinstance(val, _PMBuilt):
            raise UnknownIdiom('%s returns something that is not a range built by the constructor (parameters %s)' % (f.qual, shown))
        n_built += 1
        got = val.slots['params']
        if not isinstance(got, dict):
            raise UnknownIdiom('%s: the params slot receives a %s' % (f.qual, type(got).__name__))
        want = {k: v for k, v in items if k != 'q'}
        what = "the range is built with every parsed parameter but the weight: 't/s;%s' -> params %s" % (shown, sorted(want))
        if got == want:
            run.ok(what, f.loc(val.call), 't/s;%s' % shown)
            continue
        lost = [k for k in want if k not in got]
        culprit = next((n for n, k in pm.removed if k != 'q'), None) if lost else None
        cons = culprit if culprit is not None else val.call
        key = unparse(cons)
        if key not in bad:
            bad[key] = (cons, ["parsed parameters (in header order): %s" % shown, 'params of the range built: %s, required: %s' % (got, want)]
                        + (['parameter(s) %s dropped' % ', '.join(lost)] if lost else [])
                        + (["'q' is still among the parameters (it would be matched like a media type parameter)"] if 'q' in got else []))
    for key, (cons, wit) in sorted(bad.items()):
        run.fail('every parsed parameter other than q takes part in matching: the params of the range are the parsed parameters minus '
                 "exactly 'q', wherever q stands", f, cons, where=f.loc(cons), witness=wit, runtime_witness=_R13_WITNESS)
    if not n_built:
        raise AnchorError('%s builds no range on the model inputs' % f.qual)


class _ModFunc:
    """minimal Func stand-in for module-level resolution"""

    def __init__(self, module):
        self.module = module
        self.parent = None
        self.nested = {}
        self.cls = None
        self.node = ast.parse('def _m(): pass').body[0]

    def params(self):
        return []

# ---------------------------------------------------------------------------
# R14 an override of a mutating method of the mapping still performs the mutation
# ---------------------------------------------------------------------------

def _mutation_events(H: '_Hierarchy', d: '_MethodDef', memo: Dict[int, bool]) -> List[ast.AST]:
    """Simple statements / calls of `d` that change the mapping: direct writes of self.data (R3's write sites), the item
    protocol on self (`self[k] = v`, `del self[k]`), a call of another method of self that changes it, a call of the
    shadowed definition that changes it."""
    if d.selfname is None:
        return []
    sn = d.selfname
    out: List[ast.AST] = [st for st, _why in H.write_sites(d)]
    for n in walk_self(d.node):
        tgts = []
        if isinstance(n, (ast.Assign, ast.Delete)):
            tgts = list(n.targets)
        elif isinstance(n, (ast.AugAssign, ast.AnnAssign)) and getattr(n, 'value', None) is not None:
            tgts = [n.target]
        for t in tgts:
            for x in (t.elts if isinstance(t, (ast.Tuple, ast.List)) else [t]):
                if isinstance(x, ast.Subscript) and isinstance(x.value, ast.Name) and x.value.id == sn:
                    out.append(n)
        if isinstance(n, ast.AugAssign) and isinstance(n.target, ast.Name) and n.target.id == sn and isinstance(n.op, ast.BitOr):
            t = H.lookup('__ior__')
            if t is not None and _changes_mapping(H, t, memo):
                out.append(n)
        if isinstance(n, ast.Call) and isinstance(n.func, ast.Attribute):
            f = n.func
            if isinstance(f.value, ast.Name) and f.value.id == sn:
                t = H.lookup(f.attr)
                if t is not None and t.node is not d.node and _changes_mapping(H, t, memo):
                    out.append(n)
            else:
                t = H.base_call_target(d, n)
                if t is not None and _changes_mapping(H, t, memo):
                    out.append(n)
    return out


def _changes_mapping(H: '_Hierarchy', d: '_MethodDef', memo: Dict[int, bool]) -> bool:
    k = id(d.node)
    if k not in memo:
        memo[k] = False
        memo[k] = bool(_mutation_events(H, d, memo))
    return memo[k]


# the mutating methods of the mapping protocol (collections.abc.MutableMapping: __setitem__, __delitem__, pop, popitem, clear, update,
# setdefault; PEP 584: __ior__; the constructor fills the mapping).  Other shadowed methods that touch self.data on the way (UserDict.copy
# parks and restores it) are not changes of the receiver.
_PROTOCOL_MUTATORS = frozenset(MUTATORS) | {'__init__'}


def r14_overrides_still_mutate(run):
    """The mapping model of the property ("for every history of changes ... the handler the CURRENT mapping designates")
    includes every mutating method of the mapping protocol.  Handlers overrides some of them to keep the resolver cache
    coherent (R3); an override replaces the inherited behaviour, so it must itself perform the change: in every method
    of the package that shadows a mutating method of the mapping protocol (cross-checked on the stdlib source by the
    fixpoint: direct write of self.data, item protocol on self, call of a changing method, call of the shadowed one),
    every normal path entry -> return passes such a change, unless a test on the way looks at one of the method's
    arguments (nothing to merge, key already present, ...).
    W: `handlers |= {MEDIA_JSON: custom}` with a body that lost its `self.update(other)`: the mapping and the resolver
    keep the old handler; a new type answers 415."""
    p = run.project
    H = _Hierarchy(p, HANDLERS)
    memo: Dict[int, bool] = {}
    n_ob = 0
    for d in H.effective():
        if d.func is None or d.selfname is None:
            continue
        base = H.lookup(d.name, after=d.owner)
        if base is None or d.name not in _PROTOCOL_MUTATORS:
            continue
        if not _changes_mapping(H, base, memo):
            raise UnknownIdiom('%s: the shadowed %s is a mutator of the mapping protocol but no change of the mapping was found in it' % (d.qual, base.qual))
        f = d.func
        cfg = cfg_of(f, p)
        run.use_cfg(cfg)
        events = _mutation_events(H, d, memo)
        ev_nodes: Set[int] = set()
        for e in events:
            for n in cfg.live_nodes():
                if n.copy:
                    continue
                if n.ast is e or any(x is e for x in n.walk()):
                    ev_nodes.add(n.id)
        prms = {x for x in f.params() if x != d.selfname}
        def looks_at_args(e) -> bool:
            return e is not None and any(isinstance(x, ast.Name) and x.id in prms for x in ast.walk(e))
        # a loop over (something built from) an argument: zero iterations when the argument is empty
        arg_tests = {n.id for n in cfg.live_nodes()
                     if (n.kind == 'test' and looks_at_args(n.ast))
                     or (n.kind == 'iter' and isinstance(n.stmt, (ast.For, ast.AsyncFor)) and looks_at_args(n.stmt.iter))}
        path = flow.find_path(cfg, [cfg.entry], [cfg.exit], avoid_nodes=ev_nodes | arg_tests, edge_filter=flow.no_exc)
        n_ob += 1
        run.check(path is None, '%s shadows %s, which changes the mapping: every normal path through the override that no test on its '
                  'arguments leaves performs the change (%d changing construct(s) found: %s)'
                  % (f.qual, base.qual, len(events), '; '.join(sorted({short(e, 50) for e in events})) or 'none'), f,
                  '%s returns without changing the mapping' % d.name, where=f.loc(),
                  witness=flow.describe_path(cfg, path) if path else None,
                  runtime_witness='h = Handlers(); h.%s(...) (for __ior__: h |= {MEDIA_JSON: custom}) leaves the mapping as it was: '
                                  'the old handler keeps being resolved, a new type answers 415' % d.name)
    if n_ob == 0:
        raise AnchorError('%s overrides no mutating method of its mapping bases' % HANDLERS)


def check(run):
    run.assume('E5: str/bytes/re/dict.get methods and in-range subscripts are total; unresolved external callees do not raise unless tabled')
    run.assume('functools.lru_cache wrappers re-raise exactly what the wrapped function raises')
    run.rule('R1', _safe(r1_score_order), 'match_score tuple order by def-use role on every score return, type/subtype table on the finite domain, sentinel, quality()/best_match() wiring', floor=20)
    run.rule('R2', _safe(r2_documented_errors), 'only InvalidMediaType/InvalidMediaRange escape quality()/best_match(); q validated', floor=4)
    run.rule('R3', _safe(r3_cache_coherence), 'every direct writer of Handlers.data in the MRO clears the resolver cache (bulk writers on exceptional exits too); resolver per instance', floor=20)
    run.rule('R4', _safe(r4_resolution), 'resolver: default fallback, exact first, best match over current keys, 415 iff unmatched and asked', floor=8)
    run.rule('R5', _safe(r5_client_negotiation), 'client_accepts/client_prefers map ValueError to False/None', floor=5)
    run.rule('R6', _safe(r6_memo_results_immutable), 'values handed out by memoised parsing helpers are never mutated by their callers', floor=1)
    run.rule('R8', _safe(r8_q_never_decides_match), 'q never decides whether a range matches: not-matching returns of match_score and the range '
             'selection of _parse_media_ranges()/quality() do not read it (shared with C04)', floor=5)
    run.rule('R9', _safe(r9_same_case_form), 'the resolver compares the requested type with the registered keys in one case form: no one-sided '
             'lower()/upper()/casefold() (shared with C12)', floor=2)
    run.rule('R10', _safe(r10_negotiated_answers), 'client_accepts()/client_prefers() answer by negotiation over the whole Accept header; a shortcut '
             'is guarded by the equality of the whole header with the requested type or */*, never by a test on a part of its text', floor=6)
    run.rule('R7', _safe(r7_resolve_by_content_type), 'get_media()/render_body() of both flavours resolve by the content type itself and the options default', floor=12)
    run.rule('R11', _safe(r11_quality_stored_as_parsed), 'the weight stored for a range is the float parsed from the q text itself: validated, '
             'never rounded / truncated / scaled between float() and the constructor slot', floor=4)
    run.rule('R12', _safe(r12_lookups_through_resolver), 'every consumer of a Handlers mapping (options.media_handlers) obtains its handler '
             'through _resolve(); a plain mapping read (.get / [...] / .items / .values / .data) outside falcon/media/handlers.py is a violation', floor=12)
    run.rule('R13', _safe(r13_all_parsed_params_match), '_MediaRange.parse() evaluated on every ordered subset of {a, q, b}: the range is built with the '
             "parsed parameters minus exactly 'q' - no position-dependent filtering", floor=1)
    run.rule('R14', _safe(r14_overrides_still_mutate), 'a method of Handlers that shadows a mutating method of the mapping protocol still performs the change on every path no argument test leaves', floor=3)
    run.rule('R15', _safe(r15_one_case_form_both_sides), 'candidate text and range text reach their constructors in one case form: a case fold on one-sided '
             'text of falcon.util.mediatypes (raw argument or a piece of the shared parser result) is applied to the same piece on the other side', floor=6)
    run.rule('R16', _safe(r16_wildcard_sees_stripped_member), "_parse_media_type_header: the text compared with the lone wildcard '*' is stripped on every "
             'path (element 0 of a parse_header() result, or its own strip())', floor=1)
    run.rule('R17', _safe(r17_default_table_by_identity), 'Handlers.__init__ evaluated on initial in {None, empty mapping, non-empty mapping}: the default table only '
             'for `initial is None` (never by truthiness); copy() / __copy__ hand the live data to that constructor', floor=4)
    run.rule('R18', _safe(r18_cut_outside_quotes), 'header text is cut at , / ; only outside quoted strings: plain split/partition only under a dominating '
             '`\'"\' not in text` test; the splitter\'s character loop is equivalent to the RFC 9110 quoted-string reader (finite-domain evaluation)', floor=2)
    run.rule('R19', _safe(r19_negotiation_reads_live_header), 'Request.accept / client_accepts() / client_prefers() of both flavours are computed from the '
             "request's header table on every call: no attribute they read is a stored copy of a header value; the _cached_* attributes are the "
             'tabled memoised accessors', floor=20)


# ---------------------------------------------------------------------------
# R15 one case form on BOTH sides of the matcher (added after seeded change
# s9-c11-1: _MediaType.parse() lower-cased the candidate text, _MediaRange.parse()
# did not)
# ---------------------------------------------------------------------------
#
# match_score() compares main type, subtype, parameter names and parameter
# VALUES of a candidate (_MediaType) and of a range (_MediaRange) with `==`:
# whatever case normalisation one side applies on the way from the raw text to
# its constructor, the other side has to apply too.  The texts of the module
# are sorted into the two sides by def-use from the two parse entry points
# (a parameter whose text flows into _MediaType.parse is candidate text, into
# _MediaRange.parse range text; a helper that receives both - the shared header
# parser - is symmetric by construction and not looked at).  Every case fold
# on one-sided text is put down as (piece, fold): a fold of the raw text
# counts for all four pieces (it folds the parameter values too); a fold of a
# piece unpacked from the shared parser's result counts for that piece.  The
# two profiles must be equal.  Folds the shared parser itself applies to a
# piece (parameter names are lower-cased by parse_header) are idempotent on
# either side and are not counted.

_R15_PIECES = ('type', 'subtype', 'param-name', 'param-value')
_R15_WITNESS = "quality('application/vnd.Acme.v2+json', 'application/vnd.Acme.v2+json') is 0.0 instead of 1.0; " \
               "'text/plain; format=Flowed' no longer matches the range 'text/plain; format=Flowed'; Handlers keyed by a vendor type answer 415"
_SHARED_PARSER = MEDIATYPES + '._parse_media_type_header'        # returns (main type, subtype, params)


def _mt_functions(p):
    """functions of falcon.util.mediatypes and the lru_cache aliases of the module (alias qualname -> wrapped function)"""
    mod = p.module(MEDIATYPES)
    funcs = [f for f in p.all_functions(MEDIATYPES + '.')]
    alias_of: Dict[str, str] = {}
    for name, val in mod.consts.items():
        if isinstance(val, ast.Call) and p.resolve_expr(mod, val.func, None) in ('functools.lru_cache', 'functools.cache') and val.args:
            t = p.resolve_callable(_ModFunc(mod), val.args[0])
            if isinstance(t, Func):
                alias_of[mod.name + '.' + name] = t.qual
    by_qual = {f.qual: f for f in funcs}

    def callee(f, call) -> Optional[Func]:
        t = p.resolve_callable(f, call.func)
        if isinstance(t, Func):
            return by_qual.get(t.qual)
        q = t if isinstance(t, str) else p.resolve_expr(f.module, call.func, f)
        return by_qual.get(alias_of.get(q)) if q else None

    return funcs, callee


def _arg_binding(g: Func, call: ast.Call) -> List[Tuple[str, ast.AST]]:
    """(parameter name of g, argument expression) pairs of one call"""
    names = _param_names(g)
    out = []
    for i, a in enumerate(call.args):
        if isinstance(a, ast.Starred):
            break
        if i < len(names):
            out.append((names[i], a))
    for k in call.keywords:
        if k.arg in names:
            out.append((k.arg, k.value))
    return out


class _TextOf:
    """locals of one function that hold text derived from the parameter `a` - also through a call of a function of the
    module on such text (what a splitting / parsing helper returns for the text is pieces of the text)"""

    def __init__(self, f: Func, a: str, callee):
        self.f = f
        self.names = {a}

        def base(e):
            return isinstance(e, ast.Call) and callee(f, e) is not None and any(
                _text_derived(x, self.names, base) for x in list(e.args) + [k.value for k in e.keywords])
        self.base = base
        binds = list(_bindings_from(f.node))
        changed = True
        while changed:
            changed = False
            for tgts, v in binds:
                if not tgts <= self.names and _text_derived(v, self.names, base):
                    self.names |= tgts
                    changed = True

    def derived(self, e) -> bool:
        return _text_derived(e, self.names, self.base)


def _fold_sites(fnode, derived):
    """(call node, fold name) for every case fold applied to text that `derived` recognises"""
    for n in ast.walk(fnode):
        if not isinstance(n, ast.Call):
            continue
        fn = n.func
        if isinstance(fn, ast.Attribute) and fn.attr in CASE_FOLDS:
            if isinstance(fn.value, ast.Name) and fn.value.id == 'str':
                if n.args and derived(n.args[0]):
                    yield n, fn.attr
            elif derived(fn.value):
                yield n, fn.attr
        elif isinstance(fn, ast.Name) and fn.id == 'map' and len(n.args) >= 2 and isinstance(n.args[0], ast.Attribute) \
                and n.args[0].attr in CASE_FOLDS and isinstance(n.args[0].value, ast.Name) and n.args[0].value.id == 'str' \
                and any(derived(a) for a in n.args[1:]):
            yield n, n.args[0].attr


def _shared_parser_folds(p) -> Set[Tuple[str, str]]:
    """(piece, fold) pairs the shared header parser applies itself: every store into the parameter dict of parse_header / its
    stdlib twin has a lower-cased key -> ('param-name', 'lower')"""
    stores = []
    for q in (MEDIATYPES + '.parse_header', MEDIATYPES + '._parse_header_old_stdlib'):
        f = p.funcs.get(q)
        if f is None:
            return set()
        for n in walk_self(f.node):
            if isinstance(n, ast.Assign) and len(n.targets) == 1 and isinstance(n.targets[0], ast.Subscript) and isinstance(n.targets[0].value, ast.Name):
                k = n.targets[0].slice
                srcs = [k]
                if isinstance(k, ast.Name):
                    srcs = [v for _s, v in _assignments(f.node, k.id) if v is not None] or [k]
                stores.append(all(any(isinstance(x, ast.Call) and isinstance(x.func, ast.Attribute) and x.func.attr == 'lower' for x in ast.walk(s))
                                  for s in srcs))
    return {('param-name', 'lower')} if stores and all(stores) else set()


def r15_one_case_form_both_sides(run):
    """Candidate text and range text reach their constructors in ONE case form: every case fold applied to one-sided text in
    falcon.util.mediatypes (the raw argument of _MediaType.parse / _MediaRange.parse, of quality() / best_match() /
    _parse_media_ranges(), or a piece unpacked from the shared parser's result) is applied to the same piece on the other side.
    W: quality('application/vnd.Acme.v2+json', 'application/vnd.Acme.v2+json') is 0.0 when only the candidate is lower-cased."""
    p = run.project
    funcs, callee = _mt_functions(p)
    seeds = {(MEDIATYPES + '._MediaType.parse', 'candidate'), (MEDIATYPES + '._MediaRange.parse', 'range')}
    lab: Dict[Tuple[str, str], Set[str]] = {}
    by_qual = {f.qual: f for f in funcs}
    for q, side in seeds:
        f = p.func(q)
        names = _param_names(f)
        if len(names) != 1:
            raise UnknownIdiom('%s takes %s' % (q, names))
        lab[(q, names[0])] = {side}
    if _SHARED_PARSER not in by_qual:
        raise AnchorError('%s not found' % _SHARED_PARSER)
    texts: Dict[Tuple[str, str], _TextOf] = {}

    def text_of(f, a) -> _TextOf:
        if (f.qual, a) not in texts:
            texts[(f.qual, a)] = _TextOf(f, a, callee)
        return texts[(f.qual, a)]

    flows = []            # ((f, a), (g, b)): text of parameter a of f is handed to parameter b of g
    for f in funcs:
        if f.parent is not None:
            continue
        for a in _param_names(f):
            T = text_of(f, a)
            for c in ast.walk(f.node):
                if isinstance(c, ast.Call):
                    g = callee(f, c)
                    if g is None:
                        continue
                    for b, arg in _arg_binding(g, c):
                        if T.derived(arg):
                            flows.append(((f.qual, a), (g.qual, b), c))
    # callers first (text that flows INTO a side is text of that side), then callees (a helper receives the side of its callers)
    changed = True
    while changed:
        changed = False
        for src, dst, _c in flows:
            if dst in lab and not lab[dst] <= lab.setdefault(src, set()):
                lab[src] |= lab[dst]
                changed = True
    back = {k: set(v) for k, v in lab.items() if v}
    changed = True
    while changed:
        changed = False
        for src, dst, _c in flows:
            if lab.get(src) and not lab[src] <= lab.setdefault(dst, set()):
                lab[dst] |= lab[src]
                changed = True
    one_sided = sorted((k, next(iter(v))) for k, v in lab.items() if len(v) == 1)
    if not any(lab.get((_SHARED_PARSER, a)) == {'candidate', 'range'} for a in _param_names(by_qual[_SHARED_PARSER])):
        raise UnknownIdiom('the two parse entry points no longer hand their text to the shared parser %s' % _SHARED_PARSER)
    if len({s for _k, s in one_sided}) != 2:
        raise AnchorError('candidate-side and range-side texts not both found')

    baseline = _shared_parser_folds(p)
    profile: Dict[str, Set[Tuple[str, str]]] = {'candidate': set(), 'range': set()}
    sites: Dict[Tuple[str, str], list] = {}
    for (fq, a), side in one_sided:
        f = by_qual[fq]
        T = text_of(f, a)
        # pieces unpacked from the shared parser's result
        piece_text: List[Tuple[str, _TextOf]] = []
        for n in walk_self(f.node):
            if isinstance(n, ast.Assign) and len(n.targets) == 1 and isinstance(n.targets[0], (ast.Tuple, ast.List)) \
                    and isinstance(n.value, ast.Call) and callee(f, n.value) is by_qual[_SHARED_PARSER]:
                elts = n.targets[0].elts
                if len(elts) != 3 or not all(isinstance(x, ast.Name) for x in elts):
                    raise UnknownIdiom('%s: unpacking of the shared parser result: %s' % (fq, short(n, 80)))
                for x, piece in zip(elts, ('type', 'subtype', 'params')):
                    piece_text.append((piece, _TextOf(f, x.id, callee)))
        parent = enclosing_map(f.node)
        out = []
        for n, fold in _fold_sites(f.node, T.derived):
            recv = n.args[0] if (isinstance(n.func, ast.Attribute) and isinstance(n.func.value, ast.Name) and n.func.value.id == 'str' and n.args) \
                else (n.func.value if isinstance(n.func, ast.Attribute) else n.args[1])
            pieces = None
            for piece, PT in piece_text:
                if a not in PT.names and PT.derived(recv) and not _text_derived(recv, {a}):
                    pieces = [piece]
            if pieces is None:
                pieces = list(_R15_PIECES)
            elif pieces == ['params']:
                pieces = ['param-name', 'param-value']
                cur, child = parent.get(id(n)), n
                while cur is not None:
                    if isinstance(cur, ast.DictComp):
                        inside_key = any(x is child or x is n for x in ast.walk(cur.key))
                        inside_val = any(x is child or x is n for x in ast.walk(cur.value))
                        if inside_key != inside_val:
                            pieces = ['param-name'] if inside_key else ['param-value']
                        break
                    child, cur = cur, parent.get(id(cur))
            ent = {(pc, fold) for pc in pieces} - baseline
            profile[side] |= ent
            out.append((n, fold, ent))
        sites[(fq, a)] = out
    n_ob = 0
    for (fq, a), side in one_sided:
        f = by_qual[fq]
        other = 'range' if side == 'candidate' else 'candidate'
        what = '%s: no case fold on the %s text `%s` that the %s side does not apply to the same piece (folds: %s side %s; %s side %s)' % (
            f.name, side, a, other, side, sorted(profile[side]) or 'none', other, sorted(profile[other]) or 'none')
        bad = [(n, fold, ent - profile[other]) for n, fold, ent in sites[(fq, a)] if ent - profile[other]]
        n_ob += 1
        if not bad:
            run.ok(what, f.loc(), '%s(%s)' % (f.name, a))
            continue
        for n, fold, miss in bad:
            run.fail(what, f, n, where=f.loc(n),
                     witness=['%s() folds %s of the %s text only' % (fold, '/'.join(sorted({pc for pc, _f in miss})), side)],
                     runtime_witness=_R15_WITNESS)
    run.extra['c11_r15'] = {'one_sided_texts': ['%s(%s): %s' % (k[0].rsplit('.', 1)[-1], k[1], s) for k, s in one_sided],
                            'shared_parser_folds': sorted(baseline)}
    return n_ob


# ---------------------------------------------------------------------------
# R16 the lone-wildcard test sees the STRIPPED member (added after seeded
# change s9-c11-2: a fast path of _parse_media_type_header() skipped
# parse_header() - which is also what strips the value - for members without
# parameters)
# ---------------------------------------------------------------------------
#
# The members of an Accept header are what stands between the commas: every
# member but the first normally starts with a blank.  _parse_media_type_header()
# reads a member that is a lone `*` as `*/*`; that `== '*'` test is exact, so
# the text it sees must have lost its outer blanks on EVERY path: it is element
# 0 of a parse_header() result (whose returns are shown to be stripped: the
# `.strip()` on each return / on each yield of the parameter splitter), or has a
# `.strip()` of its own in its provenance.  Reaching definitions, not names.

_R16_WITNESS = "Accept: 'text/html, image/gif, *' -> quality()/best_match() raise InvalidMediaRange (client_prefers() is None, client_accepts() " \
               "False, Handlers answer 415); 'text/html;q=0.3, *' likewise - only a member written '*' right after the comma, or '*;q=..', still works"


class _Stripped:
    """is the value of an expression text without outer blanks?  True / False; unknown shapes raise UnknownIdiom"""

    def __init__(self, p, callee):
        self.p, self.callee = p, callee
        self.rd: Dict[str, object] = {}
        self.memo: Dict[Tuple[str, int], bool] = {}

    def _rd(self, f: Func):
        from .c09_helpers import ReachingDefs
        if f.qual not in self.rd:
            cfg = cfg_of(f, self.p)
            self.rd[f.qual] = (cfg, ReachingDefs(cfg))
        return self.rd[f.qual]

    def _nid(self, f: Func, node):
        cfg, _rd = self._rd(f)
        for n in cfg.live_nodes():
            if n.copy:
                continue
            if any(x is node for x in n.walk()):
                return n.id
        raise UnknownIdiom('%s: no CFG node for %s' % (f.qual, short(node, 60)))

    def expr(self, f: Func, e, at, index=None, depth=0) -> bool:
        """`e` (element `index` of it when given) evaluated at CFG node `at` of f"""
        if depth > 12:
            raise UnknownIdiom('%s: provenance of %s too deep' % (f.qual, short(e, 60)))
        e = _unwrap_cast(e)
        if index is not None:
            if isinstance(e, (ast.Tuple, ast.List)):
                if index >= len(e.elts) or any(isinstance(x, ast.Starred) for x in e.elts):
                    raise UnknownIdiom('%s: element %d of %s' % (f.qual, index, short(e, 60)))
                return self.expr(f, e.elts[index], at, None, depth + 1)
            if isinstance(e, ast.Call):
                g = self.callee(f, e)
                if g is not None:
                    return self.returns(g, index, depth + 1)
                if isinstance(e.func, ast.Attribute) and e.func.attr in ('partition', 'rpartition', 'split', 'rsplit'):
                    return False                          # a piece of a cut text keeps the blanks next to the separator
                raise UnknownIdiom('%s: element %d of %s' % (f.qual, index, short(e, 60)))
            if isinstance(e, ast.Name):
                return self.name(f, e.id, at, index, depth + 1)
            raise UnknownIdiom('%s: element %d of %s' % (f.qual, index, short(e, 60)))
        if isinstance(e, (ast.Name, ast.Attribute)):
            e = _lit(self.p, f, e)
        if isinstance(e, ast.Constant) and isinstance(e.value, str):
            return e.value == e.value.strip()
        if isinstance(e, ast.Call) and isinstance(e.func, ast.Attribute):
            if e.func.attr == 'strip' and not e.args and not e.keywords:
                return True
            if e.func.attr in CASE_FOLDS and not e.args:
                return self.expr(f, e.func.value, at, None, depth + 1)
            if e.func.attr == '__next__' and not e.args and isinstance(e.func.value, ast.Name):
                return self.generator(f, e.func.value.id, at, depth + 1)
            if e.func.attr in ('strip', 'lstrip', 'rstrip'):
                return False if e.func.attr != 'strip' else self._strip_arg(f, e)
            return False                                  # a slice / replace / join ... of text: no longer known to be stripped
        if isinstance(e, ast.Call) and isinstance(e.func, ast.Name) and e.func.id == 'next' and e.args and isinstance(e.args[0], ast.Name):
            return self.generator(f, e.args[0].id, at, depth + 1)
        if isinstance(e, ast.Call):
            g = self.callee(f, e)
            if g is not None:
                return self.returns(g, None, depth + 1)
            return False
        if isinstance(e, ast.Name):
            return self.name(f, e.id, at, None, depth + 1)
        if isinstance(e, ast.IfExp):
            return self.expr(f, e.body, at, None, depth + 1) and self.expr(f, e.orelse, at, None, depth + 1)
        if isinstance(e, ast.BoolOp):
            return all(self.expr(f, v, at, None, depth + 1) for v in e.values)
        return False

    def _strip_arg(self, f, e) -> bool:
        a = e.args[0] if e.args else None
        if isinstance(a, ast.Constant) and (a.value is None or (isinstance(a.value, str) and ' ' in a.value and '\t' in a.value)):
            return True
        raise UnknownIdiom('%s: %s' % (f.qual, short(e, 60)))

    def name(self, f: Func, name: str, at, index, depth) -> bool:
        _cfg, rd = self._rd(f)
        defs = rd.at(at, name)
        if not defs:
            raise UnknownIdiom('%s: no definition of %s reaches %s' % (f.qual, name, at))
        ok = True
        for d in defs:
            if d.how == 'param':
                ok = False
            elif d.how == 'assign' and d.value is not None:
                ok = self.expr(f, d.value, self._nid(f, d.stmt), index, depth) and ok
            elif d.how == 'unpack' and d.src is not None and index is None:
                ok = self.expr(f, d.src, self._nid(f, d.stmt), d.index, depth) and ok
            else:
                raise UnknownIdiom('%s: %s bound by %s' % (f.qual, name, short(d.stmt, 60)))
        return ok

    def returns(self, g: Func, index, depth) -> bool:
        key = (g.qual, -1 if index is None else index)
        if key in self.memo:
            return self.memo[key]
        self.memo[key] = True             # a recursive helper: assume, then confirm
        rets = [r for r in _returns(g) if r.value is not None]
        if not rets:
            raise UnknownIdiom('%s returns nothing' % g.qual)
        ok = all(self.expr(g, r.value, self._nid(g, r), index, depth) for r in rets)
        self.memo[key] = ok
        return ok

    def generator(self, f: Func, name: str, at, depth) -> bool:
        """next() of a local bound to a call of a generator function of the module: every yield is stripped"""
        _cfg, rd = self._rd(f)
        ok = True
        for d in rd.at(at, name):
            g = self.callee(f, d.value) if d.how == 'assign' and isinstance(d.value, ast.Call) else None
            if g is None:
                raise UnknownIdiom('%s: %s is not bound to a generator of the module' % (f.qual, name))
            ys = [n for n in walk_self(g.node) if isinstance(n, ast.Yield)]
            if not ys or any(y.value is None for y in ys) or any(isinstance(n, ast.YieldFrom) for n in walk_self(g.node)):
                raise UnknownIdiom('%s: yields of %s' % (f.qual, g.qual))
            ok = all(self.expr(g, y.value, self._nid(g, y), None, depth) for y in ys) and ok
        return ok


def r16_wildcard_sees_stripped_member(run):
    """The text compared with the lone wildcard '*' in _parse_media_type_header() is stripped on every path: element 0 of a
    parse_header() result (every return of parse_header is shown stripped) or a value with its own .strip().
    W: Accept 'text/html, *' -> the member ' *' is not read as */* -> InvalidMediaRange."""
    p = run.project
    funcs, callee = _mt_functions(p)
    f = p.func(_SHARED_PARSER)
    cfg = cfg_of(f, p)
    run.use_cfg(cfg)
    tests = []
    for n in walk_self(f.node):
        if isinstance(n, ast.Compare) and len(n.ops) == 1 and isinstance(n.ops[0], (ast.Eq, ast.NotEq, ast.In, ast.NotIn)):
            a, b = n.left, n.comparators[0]
            for x, y in ((a, b), (b, a)):
                y = _lit(p, f, y)                     # `_WILDCARD = '*'` at module level is the literal
                consts = [y] if isinstance(y, ast.Constant) else [_lit(p, f, c) for c in y.elts] \
                    if isinstance(y, (ast.Tuple, ast.List, ast.Set)) else []
                if consts and any(isinstance(c, ast.Constant) and c.value == '*' for c in consts):
                    tests.append((n, x))
    if not tests:
        raise AnchorError("%s: the lone-wildcard test (== '*') not found" % f.qual)
    S = _Stripped(p, callee)
    n_ob = 0
    for cmp_node, operand in tests:
        at = S._nid(f, cmp_node)
        ok = S.expr(f, operand, at)
        n_ob += 1
        run.check(ok, "the text compared with the lone wildcard '*' has lost its outer blanks on every path (element 0 of a parse_header() result, "
                  'or stripped by itself)', f, cmp_node, where=f.loc(cmp_node),
                  witness=None if ok else ['some definition of %s reaching the test is the raw header member (blanks after the comma kept)' % short(operand, 40)],
                  runtime_witness=_R16_WITNESS)
    return n_ob


# ---------------------------------------------------------------------------
# R17 the constructor falls back to the default table only for `initial is None`
# (added after the fix of Handlers.copy() on an emptied mapping)
# ---------------------------------------------------------------------------
#
# copy() / __copy__ hand the LIVE data of the instance to the constructor
# (R3 (c): the copy needs its own resolver).  "The copy contains the same keys
# and values" therefore needs the constructor to keep ANY mapping it is given -
# an empty one too: the default table is chosen by the identity of `initial`
# with None, never by its truthiness.  Decided by evaluating the constructor on
# the three cells of `initial` {None, empty mapping, non-empty mapping}: the
# mapping handed on to the base constructor / update() / self.data must be
# `initial` itself in the two mapping cells and something else (the defaults) in
# the None cell.

_R17_CELLS = ('None', 'empty mapping', 'non-empty mapping')
_R17_WITNESS = 'h = Handlers(); h.clear(); c = h.copy(); c._resolve(MEDIA_JSON, ...) returns the JSON handler instead of a 415: ' \
               'the copy of an emptied mapping has the three default handlers again'


class _R17Unreadable(Exception):
    pass


def _r17_eval(e, env, cell: str, var: str, decisions: list):
    """-> 'initial' | 'other' | True | False (tests) for the expression in the given cell of `initial`"""
    e = _unwrap_cast(e)

    def truth(v, node):
        if v == 'initial':
            if cell != 'None':
                decisions.append(node)              # the truthiness of the mapping decides something
            return cell == 'non-empty mapping'
        if v == 'other':
            return True                             # a dict display with items / a constructed object
        if isinstance(v, bool):
            return v
        raise _R17Unreadable(short(node, 60))

    if isinstance(e, ast.Name):
        if e.id == var and var not in env:
            return 'initial'
        if e.id in env:
            return env[e.id]
        raise _R17Unreadable(e.id)
    if isinstance(e, ast.Constant):
        if e.value is None:
            return 'none'
        return bool(e.value)
    if isinstance(e, (ast.Dict, ast.DictComp, ast.Call)):
        if isinstance(e, ast.Call) and isinstance(e.func, ast.Name) and e.func.id in ('dict', 'OrderedDict') and len(e.args) == 1 and not e.keywords:
            v = _r17_eval(e.args[0], env, cell, var, decisions)
            return v if v in ('initial', 'other') else 'other'
        if any(isinstance(x, ast.Name) and x.id == var and var not in env for x in ast.walk(e)):
            raise _R17Unreadable(short(e, 60))
        return 'other'
    if isinstance(e, ast.UnaryOp) and isinstance(e.op, ast.Not):
        return not truth(_r17_eval(e.operand, env, cell, var, decisions), e)
    if isinstance(e, ast.Compare) and len(e.ops) == 1 and isinstance(e.ops[0], (ast.Is, ast.IsNot, ast.Eq, ast.NotEq)):
        l, r = _r17_eval(e.left, env, cell, var, decisions), _r17_eval(e.comparators[0], env, cell, var, decisions)
        if {l, r} <= {'initial', 'none'} and 'none' in (l, r):
            is_none = (cell == 'None') if 'initial' in (l, r) else True
            return is_none if isinstance(e.ops[0], (ast.Is, ast.Eq)) else (not is_none)
        raise _R17Unreadable(short(e, 60))
    if isinstance(e, ast.BoolOp):
        last = None
        for v in e.values:
            last = _r17_eval(v, env, cell, var, decisions)
            if last == 'none':
                t = False
            else:
                t = truth(last, e)
            if isinstance(e.op, ast.Or) and t:
                return last
            if isinstance(e.op, ast.And) and not t:
                return last
        return last
    if isinstance(e, ast.IfExp):
        t = _r17_eval(e.test, env, cell, var, decisions)
        t = False if t == 'none' else truth(t, e.test)
        return _r17_eval(e.body if t else e.orelse, env, cell, var, decisions)
    raise _R17Unreadable(short(e, 60))


def r17_default_table_by_identity(run):
    """Handlers.__init__ keeps every mapping it is given (an empty one too) and installs the default table only when `initial`
    IS None; copy() routes the live data through that constructor.
    W: Handlers().clear() then copy(): the copy resolves MEDIA_JSON again."""
    p = run.project
    hc = p.cls(HANDLERS)
    init = p.func(HANDLERS + '.__init__')
    params = _param_names(init)
    if len(params) != 1:
        raise UnknownIdiom('%s takes %s' % (init.qual, params))
    var = params[0]
    a = init.node.args
    dflt = (a.defaults or [None])[-1]
    if not (isinstance(dflt, ast.Constant) and dflt.value is None):
        raise UnknownIdiom('%s: the default of %s is not None' % (init.qual, var))
    cfg = cfg_of(init, p)
    run.use_cfg(cfg)

    def sink_arg(stmt):
        """the mapping expression this statement installs, or None"""
        if isinstance(stmt, ast.Expr) and isinstance(stmt.value, ast.Call):
            c = stmt.value
            fn = c.func
            if isinstance(fn, ast.Attribute) and fn.attr == '__init__':
                base_is_super = isinstance(fn.value, ast.Call) and isinstance(fn.value.func, ast.Name) and fn.value.func.id == 'super'
                args = list(c.args)
                if not base_is_super:
                    if not (args and isinstance(args[0], ast.Name) and args[0].id == 'self'):
                        return None
                    args = args[1:]
                if len(args) == 1 and not isinstance(args[0], ast.Starred) and not c.keywords:
                    return args[0]
                if not args and not c.keywords:
                    return None
                raise UnknownIdiom('%s: %s' % (init.qual, short(c, 80)))
            if isinstance(fn, ast.Attribute) and fn.attr == 'update' and (is_self_attr(fn.value, DATA) or (isinstance(fn.value, ast.Name) and fn.value.id == 'self')):
                if len(c.args) == 1 and not c.keywords:
                    return c.args[0]
                raise UnknownIdiom('%s: %s' % (init.qual, short(c, 80)))
        if isinstance(stmt, (ast.Assign, ast.AnnAssign)) and getattr(stmt, 'value', None) is not None:
            tgs = stmt.targets if isinstance(stmt, ast.Assign) else [stmt.target]
            if any(is_self_attr(t, DATA) for t in tgs):
                return stmt.value
        return None

    n_ob = 0
    for cell in _R17_CELLS:
        results = []            # (sink stmt, value, decisions)
        stack = [(cfg.entry, {}, (), frozenset())]
        steps = 0
        while stack:
            nid, env, dec, onpath = stack.pop()
            steps += 1
            if steps > 3000 or nid in onpath:
                raise UnknownIdiom('%s: loop / too many paths' % init.qual)
            n = cfg.node(nid)
            decisions = list(dec)
            branch = None
            try:
                if n.kind == 'stmt':
                    sa = sink_arg(n.ast)
                    if sa is not None:
                        v = _r17_eval(sa, env, cell, var, decisions)
                        if v not in ('initial', 'other'):
                            raise _R17Unreadable(short(sa, 60))
                        results.append((n.ast, v, decisions))
                    elif isinstance(n.ast, (ast.Assign, ast.AnnAssign)) and getattr(n.ast, 'value', None) is not None:
                        tgs = n.ast.targets if isinstance(n.ast, ast.Assign) else [n.ast.target]
                        if all(isinstance(t, ast.Name) for t in tgs):
                            reads_var = any(isinstance(x, ast.Name) and x.id == var for x in ast.walk(n.ast.value)) or \
                                any(isinstance(x, ast.Name) and x.id in env for x in ast.walk(n.ast.value))
                            env = dict(env)
                            if reads_var:
                                v = _r17_eval(n.ast.value, env, cell, var, decisions)
                            else:
                                v = None
                            for t in tgs:
                                if v is None:
                                    if t.id == var:
                                        env[t.id] = 'other'
                                    elif isinstance(n.ast.value, (ast.Dict, ast.DictComp)) or isinstance(n.ast.value, ast.Call):
                                        env[t.id] = 'other'
                                    else:
                                        env.pop(t.id, None)
                                else:
                                    env[t.id] = v
                elif n.kind == 'test':
                    if any(isinstance(x, ast.Name) and (x.id == var or x.id in env) for x in walk_self(n.ast)):
                        t = _r17_eval(n.ast, env, cell, var, decisions)
                        if t == 'none':
                            branch = False
                        elif t in ('initial', 'other'):
                            if t == 'initial' and cell != 'None':
                                decisions.append(n.ast)
                            branch = (cell == 'non-empty mapping') if t == 'initial' else True
                        else:
                            branch = bool(t)
                elif n.kind in ('iter', 'with', 'handler'):
                    raise UnknownIdiom('%s: %s in the constructor' % (init.qual, n.text()))
            except _R17Unreadable as why:
                raise UnknownIdiom('%s: %s (cell initial = %s)' % (init.qual, why, cell))
            for (j, lab) in cfg.succ.get(nid, []):
                if lab == 'exc':
                    continue
                if branch is not None and lab in ('T', 'F') and (lab == 'T') != branch:
                    continue
                stack.append((j, env, tuple(decisions), onpath | {nid}))
        if not results:
            raise AnchorError('%s hands no mapping to the base constructor / update() / self.data (cell initial = %s)' % (init.qual, cell))
        want = 'other' if cell == 'None' else 'initial'
        n_ob += 1
        bad = [(s, v, d) for s, v, d in results if v != want]
        if cell == 'None':
            what = 'Handlers(None) / Handlers(): the default table is installed'
        else:
            what = 'Handlers(<%s>): the mapping given is the mapping kept - the default table is chosen by `%s is None`, never by the ' \
                   'truthiness of the mapping (copy() hands the live data to this constructor)' % (cell, var)
        if not bad:
            run.ok(what, init.loc(results[0][0]), 'initial = %s' % cell)
            continue
        s, v, d = bad[0]
        cons = d[0] if d else s
        run.fail(what, init, cons, where=init.loc(cons),
                 witness=['initial = %s: the constructor installs %s' % (cell, 'the given mapping' if v == 'initial' else 'another mapping (the defaults)')],
                 runtime_witness=_R17_WITNESS)

    # the link: copy() (and __copy__) construct from the live data
    cp = hc.methods.get('copy')
    if cp is None:
        raise AnchorError('%s.copy not found' % HANDLERS)
    run.use(cp)
    for r in _returns(cp):
        v = r.value
        if isinstance(v, ast.Name):
            binds = _assignments(cp.node, v.id)
            if len(binds) != 1 or binds[0][1] is None:
                raise UnknownIdiom('%s: returned local %s' % (cp.qual, v.id))
            v = binds[0][1]
        if _constructor_call(p, cp, v) is not True:
            raise UnknownIdiom('%s returns %s, not a constructor call (R3 (c) judges it)' % (cp.qual, short(r.value, 60)))
        args = list(v.args) + [k.value for k in v.keywords]
        n_ob += 1
        run.check(len(args) == 1 and _mentions_mapping(args[0]), 'copy() hands the live mapping (self.data / self) to the constructor: same keys and values',
                  cp, r, where=cp.loc(r), runtime_witness='h.copy() of a customised mapping comes back with the default handlers (nothing handed on)')
    cc = hc.attrs.get('__copy__')
    if cc is not None:
        if not (isinstance(cc, ast.Name) and cc.id == 'copy'):
            raise UnknownIdiom('%s.__copy__ = %s' % (HANDLERS, short(cc, 60)))
        n_ob += 1
        run.ok('__copy__ is copy(): copy.copy(handlers) takes the same route through the constructor', cp.loc(), '__copy__ = copy')
    return n_ob


# ---------------------------------------------------------------------------
# R18 header text is cut at `,` / `;` only outside quoted strings (added after
# the fix of _parse_media_ranges(): `header.split(',')` cut the quoted parameter
# value of `text/plain;format="a,b"` / `multipart/form-data; boundary="a,b"`)
# ---------------------------------------------------------------------------
#
# (a) sweep of falcon.util.mediatypes: a plain str cut (split / rsplit /
#     partition / rpartition) at one of the structural separators of the header
#     grammar (`,` between members, `;` between parameters) is accepted only
#     where a dominating test proves that the text it is applied to - or the
#     text that text was cut from - contains no DQUOTE (`'"' not in text`).
# (b) the member list of _parse_media_ranges() comes from a splitter of the
#     module; its character loop is evaluated over the finite domain
#     char in {DQUOTE, backslash, comma, other} x the boolean state variables of
#     the loop, and compared - as a transducer emitting "cut here" - with the
#     RFC 9110 5.6.4 quoted-string reader: cut at a comma only outside quotes; a
#     DQUOTE toggles the quote state unless escaped; a backslash escapes the next
#     character only inside quotes.  Equivalence over ALL character sequences is
#     decided on the reachable product states.  Not decided: the slice arithmetic
#     (start / pos) of the pieces handed out.

_R18_SEPARATORS = (',', ';')
_R18_CUTS = ('split', 'rsplit', 'partition', 'rpartition')
_R18_WITNESS_A = "quality('text/plain; format=\"a,b\"', 'text/plain; format=\"a,b\"') is 0.0 / best_match raises; Content-Type " \
                 "'multipart/form-data; boundary=\"a,b\"' resolved through Handlers answers 415"
_R18_CHARS = (('DQUOTE', '"'), ('backslash', '\\'), ('comma', ','), ('other', 'x'))


def _r18_ref_step(state, ch):
    q, esc = state
    if esc:
        return (q, False), False
    if q and ch == '\\':
        return (q, True), False
    if ch == '"':
        return (not q, False), False
    if ch == ',' and not q:
        return (q, False), True
    return (q, False), False


class _R18Unreadable(Exception):
    pass


class _R18Stop(Exception):
    pass


def _r18_code_step(body, state: Dict[str, bool], charvar: str, ch: str):
    """run the loop body once: -> (new state, cut?, tests of the arms taken)"""
    st = dict(state)
    out = {'cut': False, 'arms': []}

    def ev(e):
        if isinstance(e, ast.Constant) and isinstance(e.value, (bool, str)):
            return e.value
        if isinstance(e, ast.Name):
            if e.id in st:
                return st[e.id]
            if e.id == charvar:
                return ch
            raise _R18Unreadable(e.id)
        if isinstance(e, ast.UnaryOp) and isinstance(e.op, ast.Not):
            v = ev(e.operand)
            if not isinstance(v, bool):
                raise _R18Unreadable(short(e, 60))
            return not v
        if isinstance(e, ast.BoolOp):
            v = None
            for x in e.values:
                v = ev(x)
                if not isinstance(v, bool):
                    raise _R18Unreadable(short(e, 60))
                if isinstance(e.op, ast.And) and not v:
                    return False
                if isinstance(e.op, ast.Or) and v:
                    return True
            return v
        if isinstance(e, ast.Compare) and len(e.ops) == 1:
            l, r = e.left, e.comparators[0]
            op = e.ops[0]
            if isinstance(op, (ast.Eq, ast.NotEq)):
                a, b = ev(l), ev(r)
                if isinstance(a, bool) != isinstance(b, bool):
                    raise _R18Unreadable(short(e, 60))
                return (a == b) if isinstance(op, ast.Eq) else (a != b)
            if isinstance(op, (ast.In, ast.NotIn)):
                a = ev(l)
                if isinstance(r, ast.Constant) and isinstance(r.value, str):
                    members = list(r.value)
                elif isinstance(r, (ast.Tuple, ast.List, ast.Set)) and all(isinstance(x, ast.Constant) and isinstance(x.value, str) for x in r.elts):
                    members = [x.value for x in r.elts]
                else:
                    raise _R18Unreadable(short(e, 60))
                if not isinstance(a, str):
                    raise _R18Unreadable(short(e, 60))
                return (a in members) if isinstance(op, ast.In) else (a not in members)
            if isinstance(op, (ast.Is, ast.IsNot)) and isinstance(r, ast.Constant) and isinstance(r.value, bool):
                a = ev(l)
                return (a is r.value) if isinstance(op, ast.Is) else (a is not r.value)
        if isinstance(e, ast.IfExp):
            t = ev(e.test)
            if not isinstance(t, bool):
                raise _R18Unreadable(short(e, 60))
            return ev(e.body if t else e.orelse)
        raise _R18Unreadable(short(e, 60))

    def block(stmts):
        for s in stmts:
            if isinstance(s, ast.If):
                t = ev(s.test)
                if not isinstance(t, bool):
                    raise _R18Unreadable(short(s.test, 60))
                if t:
                    out['arms'].append(s.test)
                    block(s.body)
                else:
                    block(s.orelse)
            elif isinstance(s, (ast.Assign, ast.AnnAssign)) and getattr(s, 'value', None) is not None:
                tgs = s.targets if isinstance(s, ast.Assign) else [s.target]
                if all(isinstance(t, ast.Name) and t.id in st for t in tgs):
                    v = ev(s.value)
                    if not isinstance(v, bool):
                        raise _R18Unreadable(short(s, 60))
                    for t in tgs:
                        st[t.id] = v
                elif any(isinstance(x, ast.Name) and x.id in st and isinstance(x.ctx, ast.Store) for t in tgs for x in ast.walk(t)):
                    raise _R18Unreadable(short(s, 60))
                # other locals (start = pos + 1, piece = header[start:pos]): slice arithmetic, not decided
            elif isinstance(s, ast.AugAssign):
                if isinstance(s.target, ast.Name) and s.target.id in st:
                    raise _R18Unreadable(short(s, 60))
            elif isinstance(s, ast.Expr) and isinstance(s.value, ast.Call) and isinstance(s.value.func, ast.Attribute) and s.value.func.attr == 'append':
                out['cut'] = True
            elif isinstance(s, ast.Expr) and isinstance(s.value, ast.Yield):
                out['cut'] = True
            elif isinstance(s, ast.Expr) and isinstance(s.value, ast.Constant):
                pass
            elif isinstance(s, ast.Pass):
                pass
            elif isinstance(s, ast.Continue):
                raise _R18Stop()
            else:
                raise _R18Unreadable(short(s, 60))

    try:
        block(body)
    except _R18Stop:
        pass
    return st, out['cut'], out['arms']


# ---- R18 (b'), wave 11 (seeded change s11-c11-2): the splitter hops from delimiter to delimiter with str.find()
#
# The loop is read as a two-state machine (inside / outside the quoted string, the boolean variable in front of the loop)
# whose every pass is enumerated per path: tests on the state variable are decided, every other test splits the path and
# is kept as a path condition.  Decided:
#   * no piece is handed out (append / yield) on a path on which the state is "inside";
#   * every path that CLOSES the quoted string (inside -> outside) at a DQUOTE found by find('"') carries a condition that
#     is a function of the PARITY of the run of backslashes in front of that DQUOTE (RFC 9110 5.6.4: a quoted-pair is a
#     backslash and ONE character, so the DQUOTE closes exactly when an even number of backslashes precedes it):
#       - a run count (len(s) - len(s.rstrip('\\')) of text ending at the DQUOTE, or a counter stepped backwards over
#         header[k] == '\\') is evaluated for run lengths 0..5: the path must be taken exactly for the even ones;
#       - a condition that reads only a FIXED window in front of the DQUOTE (header[q - 1], header[q - 2:q],
#         header[:q].endswith('\\')) cannot tell a run of k backslashes from a run of k + 1: violation;
#       - no backslash evidence at all: `\"` closes the string: violation.
# Not decided: the position arithmetic (which DQUOTE / comma comes first, start / pos, the slices handed out).

_R18_WITNESS_HOP = "quality('text/html', 'text/plain;format=\"C:\\\\dir\\\\\", text/html;q=0.5') is 0.0: the value ends in an escaped " \
                   "backslash, its closing DQUOTE is taken for an escaped one and every following range is swallowed"
_R18_RUNS = (0, 1, 2, 3, 4, 5)


def _r18_is_bs(e) -> bool:
    return isinstance(e, ast.Constant) and e.value == '\\'


def _r18_find_hops(run, g, gh: str, loop: ast.While):
    """the str.find() hop loop of the splitter; emits the obligations, returns (their number, the summary for the evidence file)"""
    def unreadable(what):
        return UnknownIdiom('%s: %s in the find() hop loop' % (g.qual, what if isinstance(what, str) else short(what, 60)))

    if loop.orelse:
        raise unreadable(loop)
    inside_loop = {id(x) for x in ast.walk(loop)}
    # ---- names: aliases of header.find, positions of a found DQUOTE, single definitions
    defs: Dict[str, List[ast.AST]] = {}
    aug: Dict[str, List[ast.AugAssign]] = {}
    for n in walk_self(g.node):
        if isinstance(n, ast.Assign):
            for t in n.targets:
                if isinstance(t, ast.Name):
                    defs.setdefault(t.id, []).append(n.value)
                elif isinstance(t, (ast.Tuple, ast.List)):
                    for x in ast.walk(t):
                        if isinstance(x, ast.Name):
                            defs.setdefault(x.id, []).append(n)          # not a readable single definition
        elif isinstance(n, ast.AnnAssign) and isinstance(n.target, ast.Name) and n.value is not None:
            defs.setdefault(n.target.id, []).append(n.value)
        elif isinstance(n, ast.AugAssign) and isinstance(n.target, ast.Name):
            aug.setdefault(n.target.id, []).append(n)
        elif isinstance(n, (ast.For, ast.comprehension)):
            for x in ast.walk(n.target):
                if isinstance(x, ast.Name):
                    defs.setdefault(x.id, []).append(n)
        elif isinstance(n, ast.NamedExpr):
            defs.setdefault(n.target.id, []).append(n)
    if gh in defs or gh in aug:
        raise unreadable('the header text %s is rebound' % gh)

    def is_hdr_method(fn, names):
        if isinstance(fn, ast.Attribute) and isinstance(fn.value, ast.Name) and fn.value.id == gh and fn.attr in names:
            return True
        if isinstance(fn, ast.Name) and len(defs.get(fn.id, ())) == 1 and fn.id not in aug:
            d = defs[fn.id][0]
            return isinstance(d, ast.Attribute) and isinstance(d.value, ast.Name) and d.value.id == gh and d.attr in names
        return False

    def is_quote_find(e):
        return isinstance(e, ast.Call) and is_hdr_method(e.func, ('find', 'index')) and e.args and isinstance(e.args[0], ast.Constant) \
            and e.args[0].value == '"' and not e.keywords

    qpos = {nm for nm, ds in defs.items() if ds and all(is_quote_find(d) for d in ds) and nm not in aug}
    if not qpos:
        raise unreadable("no position of a DQUOTE found by %s.find('\"', ...)" % gh)
    # positions: integers, results of header.find / .index / len(header), sums and differences of positions
    posnames: Set[str] = set(defs) - {gh}

    def is_pos(e):
        if isinstance(e, ast.Constant):
            return type(e.value) is int
        if isinstance(e, ast.Name):
            return e.id in posnames
        if isinstance(e, ast.BinOp) and isinstance(e.op, (ast.Add, ast.Sub)):
            return is_pos(e.left) and is_pos(e.right)
        if isinstance(e, ast.Call) and not e.keywords and is_hdr_method(e.func, ('find', 'index', 'rfind', 'rindex')):
            return bool(e.args) and isinstance(e.args[0], ast.Constant) and all(is_pos(x) for x in e.args[1:])
        if isinstance(e, ast.Call) and isinstance(e.func, ast.Name) and e.func.id == 'len' and len(e.args) == 1 and not e.keywords:
            return isinstance(e.args[0], ast.Name) and e.args[0].id == gh
        return False

    shrunk = True
    while shrunk:                              # greatest fixpoint: pos = comma + 1 / comma = find(',', pos) refer to each other
        shrunk = False
        for nm in sorted(posnames):
            if not (all(isinstance(d, ast.expr) and is_pos(d) for d in defs[nm]) and all(is_pos(x.value) for x in aug.get(nm, ()))):
                posnames.discard(nm)
                shrunk = True
    if not qpos <= posnames:
        raise unreadable('the position of the found DQUOTE is rebound to something that is not a position')
    # ---- the state variable
    init: Dict[str, bool] = {}
    for n in walk_self(g.node):
        if isinstance(n, (ast.Assign, ast.AnnAssign)) and id(n) not in inside_loop and isinstance(getattr(n, 'value', None), ast.Constant) \
                and isinstance(n.value.value, bool):
            for t in (n.targets if isinstance(n, ast.Assign) else [n.target]):
                if isinstance(t, ast.Name):
                    if t.id in init:
                        raise unreadable('%s initialised twice' % t.id)
                    init[t.id] = n.value.value
    if len(init) != 1:
        raise unreadable('%d boolean state variables in front of the loop (one expected: inside / outside the quoted string)' % len(init))
    sv = next(iter(init))
    outside = init[sv]
    if not (isinstance(loop.test, ast.Constant) and loop.test.value is True):
        # a bounded loop (`while pos < len(header)`): the bound is position arithmetic; it must not involve the state
        if any(isinstance(x, ast.Name) and x.id == sv for x in ast.walk(loop.test)):
            raise unreadable(loop.test)

    # ---- one pass of the body, per path
    def ev3(e, val):
        """three-valued: True / False / None (not a function of the state variable)"""
        if isinstance(e, ast.Constant) and isinstance(e.value, bool):
            return e.value
        if isinstance(e, ast.Name) and e.id == sv:
            return val
        if isinstance(e, ast.UnaryOp) and isinstance(e.op, ast.Not):
            v = ev3(e.operand, val)
            return None if v is None else (not v)
        if isinstance(e, ast.BoolOp):
            vs = [ev3(x, val) for x in e.values]
            if isinstance(e.op, ast.And):
                return False if any(v is False for v in vs) else (True if all(v is True for v in vs) else None)
            return True if any(v is True for v in vs) else (False if all(v is False for v in vs) else None)
        if isinstance(e, ast.Compare) and len(e.ops) == 1 and isinstance(e.ops[0], (ast.Is, ast.IsNot, ast.Eq, ast.NotEq)) \
                and isinstance(e.comparators[0], ast.Constant) and isinstance(e.comparators[0].value, bool):
            v = ev3(e.left, val)
            if v is None:
                if any(isinstance(x, ast.Name) and x.id == sv for x in ast.walk(e)):
                    raise unreadable(e)
                return None
            r = v is e.comparators[0].value
            return r if isinstance(e.ops[0], (ast.Is, ast.Eq)) else (not r)
        if any(isinstance(x, ast.Name) and x.id == sv for x in ast.walk(e)):
            raise unreadable(e)
        return None

    events: List[Tuple] = []

    def walk(stmts, states):
        for s in stmts:
            nxt = []
            for val, cond in states:
                nxt.extend(step(s, val, cond))
            states = nxt
            if not states:
                break
        return states

    def step(s, val, cond):
        if isinstance(s, ast.If):
            t = ev3(s.test, val)
            out = []
            if t is not False:
                out.extend(walk(s.body, [(val, cond + [(s.test, True)])]))
            if t is not True:
                out.extend(walk(s.orelse, [(val, cond + [(s.test, False)])]))
            return out
        if isinstance(s, (ast.Assign, ast.AnnAssign)):
            if getattr(s, 'value', None) is None:
                return [(val, cond)]
            tgs = s.targets if isinstance(s, ast.Assign) else [s.target]
            if any(isinstance(t, ast.Name) and t.id == sv for t in tgs):
                if not all(isinstance(t, ast.Name) for t in tgs) or len(tgs) != 1:
                    raise unreadable(s)
                v = ev3(s.value, val)
                if v is None:
                    # the new state is a test of its own: one path for each outcome
                    out = []
                    for b in (True, False):
                        c2 = cond + [(s.value, b)]
                        if b != val:
                            events.append(('set', s, val, b, c2))
                            c2 = c2 + [(s, 'close' if b == outside else 'open')]
                        out.append((b, c2))
                    return out
                if v != val:
                    events.append(('set', s, val, v, cond))
                    cond = cond + [(s, 'close' if v == outside else 'open')]
                return [(v, cond)]
            if any(isinstance(x, ast.Name) and x.id == sv for t in tgs for x in ast.walk(t)):
                raise unreadable(s)
            return [(val, cond)]                       # positions, pieces: slice arithmetic, not decided
        if isinstance(s, ast.AugAssign):
            if any(isinstance(x, ast.Name) and x.id == sv for x in ast.walk(s.target)):
                raise unreadable(s)
            return [(val, cond)]
        if isinstance(s, ast.Expr) and isinstance(s.value, ast.Call) and isinstance(s.value.func, ast.Attribute) and s.value.func.attr == 'append':
            events.append(('cut', s, val, val, cond))
            return [(val, cond)]
        if isinstance(s, ast.Expr) and isinstance(s.value, ast.Yield):
            events.append(('cut', s, val, val, cond))
            return [(val, cond)]
        if isinstance(s, ast.Expr) and isinstance(s.value, ast.Constant):
            return [(val, cond)]
        if isinstance(s, ast.Pass):
            return [(val, cond)]
        if isinstance(s, ast.Continue):
            ends.add(val)
            finished.append((start_state[0], cond))
            return []
        if isinstance(s, (ast.Break, ast.Return)):
            finished.append((start_state[0], cond))
            return []
        if isinstance(s, ast.While) and not s.orelse:
            # an inner loop is read only as the backwards counter of the backslash run: it must not touch the state, the found
            # positions, or hand out pieces
            for x in ast.walk(s):
                if isinstance(x, ast.Name) and isinstance(x.ctx, ast.Store) and (x.id == sv or x.id in qpos):
                    raise unreadable(s)
                if isinstance(x, (ast.Yield, ast.Break, ast.Continue, ast.Return)) or (
                        isinstance(x, ast.Call) and isinstance(x.func, ast.Attribute) and x.func.attr == 'append'):
                    raise unreadable(s)
            return [(val, cond)]
        raise unreadable(s)

    seen_states: Set[bool] = set()
    finished: List[Tuple[bool, List]] = []
    start_state = [outside]
    todo = [outside]
    while todo:
        v0 = todo.pop()
        if v0 in seen_states:
            continue
        seen_states.add(v0)
        ends: Set[bool] = set()
        start_state[0] = v0
        for val, c in walk(loop.body, [(v0, [])]):
            ends.add(val)
            finished.append((v0, c))
        todo.extend(ends - seen_states)

    # ---- clause 1: no piece is handed out inside the quoted string
    cuts = [e for e in events if e[0] == 'cut']
    if not cuts:
        raise unreadable('no piece is handed out (append / yield)')
    n_ob = 0
    done = set()
    for _k, s, val, _v, cond in cuts:
        if (id(s), val) in done:
            continue
        done.add((id(s), val))
        n_ob += 1
        run.check(val == outside, '%s: a piece is handed out only on a path on which the state is "outside the quoted string" (%s is %s)'
                  % (g.name, sv, outside), g, s, where=g.loc(s), witness=['reached with %s = %s' % (sv, val)], runtime_witness=_R18_WITNESS_A)

    # ---- clause 2: closing depends on the parity of the backslash run
    if not any(e[0] == 'set' and e[2] != outside and e[3] == outside for e in events):
        raise unreadable('no path that closes the quoted string (%s back to %s)' % (sv, outside))

    def expand(e, depth=0):
        """names bound once to an expression are read as that expression"""
        class T(ast.NodeTransformer):
            def visit_Name(self, n):
                if isinstance(n.ctx, ast.Load) and n.id not in posnames and n.id != gh and n.id != sv and n.id not in aug \
                        and len(defs.get(n.id, ())) == 1 and isinstance(defs[n.id][0], ast.expr) and depth < 5:
                    return expand(defs[n.id][0], depth + 1)
                return n
        import copy
        return T().visit(copy.deepcopy(e))

    def atoms(e, pol):
        if isinstance(e, ast.UnaryOp) and isinstance(e.op, ast.Not):
            return atoms(e.operand, not pol)
        if isinstance(e, ast.BoolOp) and ((isinstance(e.op, ast.And) and pol) or (isinstance(e.op, ast.Or) and not pol)):
            return [a for x in e.values for a in atoms(x, pol)]
        return [(e, pol)]

    def ends_at_quote(sl):
        """a slice of the header text whose upper bound is the position of the found DQUOTE"""
        return isinstance(sl, ast.Subscript) and isinstance(sl.value, ast.Name) and sl.value.id == gh and isinstance(sl.slice, ast.Slice) \
            and sl.slice.step is None and isinstance(sl.slice.upper, ast.Name) and sl.slice.upper.id in qpos

    def backwards_counter(nm):
        """n = 0; k = q - 1; while ... header[k] == '\\\\' ...: n += 1; k -= 1"""
        if not (len(defs.get(nm, ())) == 1 and isinstance(defs[nm][0], ast.Constant) and defs[nm][0].value == 0 and type(defs[nm][0].value) is int
                and id(defs[nm][0]) in inside_loop):
            return False              # the counter starts at 0 for every DQUOTE found
        steps = aug.get(nm, [])
        if not (len(steps) == 1 and isinstance(steps[0].op, ast.Add) and isinstance(steps[0].value, ast.Constant) and steps[0].value.value == 1):
            return False
        for w in ast.walk(loop):
            if not (isinstance(w, ast.While) and w is not loop and any(x is steps[0] for x in w.body)):
                continue
            ks = []
            for (a, pol) in atoms(w.test, True):
                if isinstance(a, ast.Compare) and len(a.ops) == 1 and isinstance(a.ops[0], ast.Eq) and pol and _r18_is_bs(a.comparators[0]) \
                        and isinstance(a.left, ast.Subscript) and isinstance(a.left.value, ast.Name) and a.left.value.id == gh \
                        and isinstance(a.left.slice, ast.Name):
                    ks.append(a.left.slice.id)
            if len(ks) != 1:
                return False
            k = ks[0]
            kd = defs.get(k, [])
            ka = aug.get(k, [])
            if not (len(kd) == 1 and isinstance(kd[0], ast.BinOp) and isinstance(kd[0].op, ast.Sub) and isinstance(kd[0].left, ast.Name)
                    and kd[0].left.id in qpos and isinstance(kd[0].right, ast.Constant) and kd[0].right.value == 1):
                return False
            if not (len(ka) == 1 and any(x is ka[0] for x in w.body) and isinstance(ka[0].op, ast.Sub) and isinstance(ka[0].value, ast.Constant)
                    and ka[0].value.value == 1):
                return False
            if len(w.body) != 2:
                return False
            return True
        return False

    def is_run_count(e):
        if isinstance(e, ast.Name):
            return backwards_counter(e.id)
        if isinstance(e, ast.BinOp) and isinstance(e.op, ast.Sub):
            l, r = e.left, e.right
            if all(isinstance(x, ast.Call) and isinstance(x.func, ast.Name) and x.func.id == 'len' and len(x.args) == 1 and not x.keywords for x in (l, r)):
                a, b = l.args[0], r.args[0]
                if isinstance(b, ast.Call) and isinstance(b.func, ast.Attribute) and b.func.attr == 'rstrip' and len(b.args) == 1 \
                        and _r18_is_bs(b.args[0]) and ast.dump(b.func.value) == ast.dump(a) and ends_at_quote(a):
                    return True
        return False

    class _NoEval(Exception):
        pass

    class _SkipRun(Exception):
        """the window reaches beyond the character in front of the run: not determined by this run length"""

    OTHER = object()           # the character in front of the run: any character but a backslash

    def q_minus_c(x):
        if isinstance(x, ast.BinOp) and isinstance(x.op, ast.Sub) and isinstance(x.left, ast.Name) and x.left.id in qpos \
                and isinstance(x.right, ast.Constant) and type(x.right.value) is int and x.right.value >= 1:
            return x.right.value
        return None

    def sym(j, n):
        if j <= n:
            return '\\'
        if j == n + 1:
            return OTHER
        raise _SkipRun()

    def window(x, n):
        """the characters a read of the header text in front of the found DQUOTE sees, for a run of n backslashes; None: not such a read"""
        if isinstance(x, ast.Subscript) and isinstance(x.value, ast.Name) and x.value.id == gh:
            c = q_minus_c(x.slice)
            if c is not None:
                return [sym(c, n)]
            if isinstance(x.slice, ast.Slice) and x.slice.step is None and x.slice.lower is not None and x.slice.upper is not None:
                c = q_minus_c(x.slice.lower)
                d = 0 if (isinstance(x.slice.upper, ast.Name) and x.slice.upper.id in qpos) else q_minus_c(x.slice.upper)
                if c is not None and d is not None and c > d:
                    return [sym(j, n) for j in range(c, d, -1)]
        return None

    def same(win, text):
        if len(win) != len(text):
            return False
        r = True
        for w, ch in zip(win, text):
            if w is OTHER:
                if ch != '\\':
                    raise _NoEval()          # "any character but a backslash" compared with a character that is not a backslash
                r = False
            elif w != ch:
                r = False
        return r

    def pev(e, n):
        if is_run_count(e):
            return n
        w = window(e, n)
        if w is not None:
            return w
        if isinstance(e, ast.Constant) and isinstance(e.value, (int, bool, str)):
            return e.value
        if isinstance(e, ast.Name) and e.id == sv:
            return not outside
        if isinstance(e, ast.UnaryOp) and isinstance(e.op, ast.Not):
            v = pev(e.operand, n)
            if isinstance(v, list):
                raise _NoEval()
            return not v
        if isinstance(e, ast.BoolOp):
            vs = [pev(x, n) for x in e.values]
            if any(isinstance(v, (list, str)) for v in vs):
                raise _NoEval()
            return all(vs) if isinstance(e.op, ast.And) else any(vs)
        if isinstance(e, ast.BinOp) and isinstance(e.op, (ast.Mod, ast.BitAnd, ast.FloorDiv, ast.Add, ast.Sub)):
            a, b = pev(e.left, n), pev(e.right, n)
            if not (type(a) in (int, bool) and type(b) in (int, bool)) or (isinstance(e.op, (ast.Mod, ast.FloorDiv)) and b == 0):
                raise _NoEval()
            return {ast.Mod: lambda: a % b, ast.BitAnd: lambda: a & b, ast.FloorDiv: lambda: a // b, ast.Add: lambda: a + b,
                    ast.Sub: lambda: a - b}[type(e.op)]()
        if isinstance(e, ast.Call) and isinstance(e.func, ast.Attribute) and e.func.attr == 'endswith' and not e.keywords and e.args \
                and isinstance(e.args[0], ast.Constant) and isinstance(e.args[0].value, str) and e.args[0].value:
            text = e.args[0].value
            if (ends_at_quote(e.func.value) and len(e.args) == 1) or (
                    isinstance(e.func.value, ast.Name) and e.func.value.id == gh and len(e.args) == 3 and isinstance(e.args[2], ast.Name)
                    and e.args[2].id in qpos and not any(isinstance(y, ast.Name) and y.id == gh for y in ast.walk(e.args[1]))):
                return same([sym(j, n) for j in range(len(text), 0, -1)], text)
            raise _NoEval()
        if isinstance(e, ast.Compare) and len(e.ops) == 1:
            op, r = e.ops[0], e.comparators[0]
            a = pev(e.left, n)
            if isinstance(op, (ast.In, ast.NotIn)):
                if isinstance(r, (ast.Tuple, ast.List, ast.Set)) and all(isinstance(x, ast.Constant) and isinstance(x.value, str) for x in r.elts):
                    members = [x.value for x in r.elts]
                elif isinstance(r, ast.Constant) and isinstance(r.value, str) and isinstance(a, list) and len(a) == 1:
                    members = list(r.value)
                else:
                    raise _NoEval()
                if not isinstance(a, list):
                    raise _NoEval()
                hit = any([same(a, m) for m in members])
                return hit if isinstance(op, ast.In) else (not hit)
            b = pev(r, n)
            if isinstance(a, list) or isinstance(b, list):
                if isinstance(b, list):
                    a, b = b, a
                if not (isinstance(b, str) and isinstance(op, (ast.Eq, ast.NotEq))):
                    raise _NoEval()
                eq = same(a, b)
                return eq if isinstance(op, ast.Eq) else (not eq)
            if isinstance(a, str) or isinstance(b, str):
                raise _NoEval()
            for k, fn in ((ast.Eq, lambda: a == b), (ast.NotEq, lambda: a != b), (ast.Lt, lambda: a < b), (ast.LtE, lambda: a <= b),
                          (ast.Gt, lambda: a > b), (ast.GtE, lambda: a >= b)):
                if isinstance(op, k):
                    return fn()
        raise _NoEval()

    def has_run_count(e):
        return any(is_run_count(x) for x in ast.walk(e))

    def reads_text(x):
        """the condition is not a function of the found positions and the state alone (len(header) is a position)"""
        lens = {id(y) for c in ast.walk(x) if isinstance(c, ast.Call) and isinstance(c.func, ast.Name) and c.func.id == 'len' and len(c.args) == 1
                and isinstance(c.args[0], ast.Name) and c.args[0].id == gh for y in ast.walk(c)}
        return has_run_count(x) or any(isinstance(y, ast.Name) and id(y) not in lens and y.id != sv and y.id not in posnames for y in ast.walk(x))

    # the passes that start inside the quoted string: those that close it, and those that looked at the text and kept it open
    p_close, p_keep = [], []
    for v0, cond in finished:
        if v0 == outside:
            continue
        lits = [(expand(a), pol, a) for (t, tp) in cond if not isinstance(tp, str) for (a, pol) in atoms(t, tp)]
        lits = [l for l in lits if reads_text(l[0])]
        marks = [t for (t, tp) in cond if tp == 'close']
        if marks:
            p_close.append((marks[0], lits))
        elif lits:
            p_keep.append((None, lits))

    def consistent(lits, n):
        for x, pol, a in lits:
            try:
                v = pev(x, n)
            except _NoEval:
                raise unreadable(a)
            if isinstance(v, (list, str)):
                raise unreadable(a)
            if bool(v) != pol:
                return False
        return True

    what = '%s: a DQUOTE found by find() inside the quoted string closes it exactly when the run of backslashes in front of it is even ' \
           '(a quoted-pair is a backslash and ONE character): the closing decision evaluated per run length' % g.name
    evaluated, skipped, broken = [], [], None
    for n in _R18_RUNS:
        try:
            took = [pc for pc in p_close if consistent(pc[1], n)]
            kept = [pk for pk in p_keep if consistent(pk[1], n)]
        except _SkipRun:
            skipped.append(n)
            continue
        evaluated.append(n)
        if n % 2 and took:
            broken = (n, took[0], 'the closing path is taken although the DQUOTE is escaped')
        elif n % 2 == 0 and (kept or not took):
            pth = kept[0] if kept else p_close[0]
            broken = (n, pth, 'the quoted string is not closed although the DQUOTE is not escaped')
        if broken:
            break
    n_ob += 1
    if broken:
        n, (mark, lits), why = broken
        cons = lits[0][2] if lits else mark
        run.fail(what, g, cons, where=g.loc(cons), witness=['with a run of %d backslash(es) in front of the DQUOTE: %s' % (n, why)] + [
            'condition on that path: %s is %s' % (short(a, 60), pol) for (_x, pol, a) in lits] + ([] if lits else [
                'the closing path carries no condition on the characters in front of the DQUOTE']),
            runtime_witness=_R18_WITNESS_HOP if n else "'a/b;p=\"x\", c/d' swallows c/d")
    elif skipped or len(evaluated) < 4:
        raise unreadable('run lengths %s not determined by the windows read in front of the DQUOTE' % skipped)
    else:
        cons = next((l[2] for pc in p_close for l in pc[1]), p_close[0][0])
        run.ok(what + ' (run lengths %s, %d closing / %d keeping paths)' % (tuple(evaluated), len(p_close), len(p_keep)), g.loc(cons), cons)
    return n_ob, {'splitter': g.qual, 'shape': 'find-hops', 'state_variable': sv, 'quote_positions': sorted(qpos),
                  'closing_paths': len(p_close), 'keeping_paths': len(p_keep), 'run_lengths': evaluated}


def r18_cut_outside_quotes(run):
    """(a) no plain split/partition of header text at `,` / `;` unless a dominating test shows the text has no DQUOTE;
    (b) the splitter's character loop cuts exactly where the RFC 9110 quoted-string reader says a comma is outside quotes.
    W: 'text/plain; format="a,b"' is cut into 'text/plain; format="a' and 'b"'."""
    from .c09_helpers import rebound_between
    p = run.project
    funcs, callee = _mt_functions(p)
    by_qual = {f.qual: f for f in funcs}
    n_ob = 0
    # ---- (a)
    for f in funcs:
        cuts = []
        for n in walk_self(f.node):
            if isinstance(n, ast.Call) and isinstance(n.func, ast.Attribute) and n.func.attr in _R18_CUTS and n.args \
                    and isinstance(n.args[0], ast.Constant) and n.args[0].value in _R18_SEPARATORS:
                if n.func.attr == 'partition' and n.args[0].value == ';':
                    continue       # the FIRST `;` of a member stands in front of every parameter, hence of every quoted string
                cuts.append((n, n.func.value))
            elif isinstance(n, ast.Call) and p.resolve_expr(f.module, n.func, f) == 're.split' and len(n.args) >= 2:
                pat = p.fold(f.module, n.args[0], None, f)
                if pat is UNKNOWN or not isinstance(pat, str):
                    raise UnknownIdiom('%s: %s' % (f.qual, short(n, 60)))
                if any(s in pat for s in _R18_SEPARATORS):
                    cuts.append((n, n.args[1]))
        if not cuts:
            continue
        cfg = cfg_of(f, p)
        run.use_cfg(cfg)
        for call, recv in cuts:
            nids = [n.id for n in cfg.live_nodes() if not n.copy and any(x is call for x in n.walk())]
            if not nids:
                if any(x is call for g in f.nested.values() for x in ast.walk(g.node)):
                    continue
                raise UnknownIdiom('%s: no CFG node for %s' % (f.qual, short(call, 60)))
            nid = nids[0]
            proved = None
            for t in cfg.live_nodes():
                if t.kind != 'test' or proved:
                    continue
                for (y, l) in cfg.succ[t.id]:
                    if l not in ('T', 'F') or not flow.dominated_by_edge(cfg, nid, (t.id, y, l)):
                        continue
                    for c in walk_self(t.ast):
                        if not (isinstance(c, ast.Compare) and len(c.ops) == 1 and isinstance(c.ops[0], (ast.In, ast.NotIn))
                                and isinstance(c.left, ast.Constant) and c.left.value == '"' and isinstance(c.comparators[0], ast.Name)):
                            continue
                        r = implied(t.ast, l == 'T', lambda e, c=c: e is c)
                        if r is None or r != isinstance(c.ops[0], ast.NotIn):
                            continue
                        base = c.comparators[0].id
                        names = _derived_closure(f.node, base)
                        if not _text_derived(recv, names):
                            continue
                        if rebound_between(cfg, t.id, l, nid, {base}):
                            continue
                        proved = t.ast
            n_ob += 1
            run.check(proved is not None, "a plain cut of header text at %r only where a dominating test shows the text has no DQUOTE ('\"' not in ...): "
                      'a separator inside a quoted parameter value is not a separator' % call.args[0].value if isinstance(call.func, ast.Attribute)
                      else 'a regular-expression cut of header text at a separator only where the text has no DQUOTE', f, call, where=f.loc(call),
                      runtime_witness=_R18_WITNESS_A)
    # ---- (b)
    pr = p.func(MEDIATYPES + '._parse_media_ranges')
    run.use(pr)
    hdr = single(_param_names(pr), 'parameter', pr.qual)
    sources = []
    for n in ast.walk(pr.node):
        if isinstance(n, (ast.comprehension, ast.For)):
            sources.append(n.iter)
    if len(sources) != 1:
        raise UnknownIdiom('%s: %d loops over the members' % (pr.qual, len(sources)))
    src = sources[0]
    g = callee(pr, src) if isinstance(src, ast.Call) else None
    if g is None:
        if isinstance(src, ast.Call) and isinstance(src.func, ast.Attribute) and src.func.attr in _R18_CUTS:
            return n_ob                          # judged by (a)
        raise UnknownIdiom('%s: the members come from %s' % (pr.qual, short(src, 60)))
    if not (len(src.args) == 1 and isinstance(src.args[0], ast.Name) and src.args[0].id == hdr):
        raise UnknownIdiom('%s: %s is not applied to the header text itself' % (pr.qual, short(src, 60)))
    run.use(g)
    gh = single(_param_names(g), 'parameter', g.qual)
    loops = [n for n in walk_self(g.node) if isinstance(n, (ast.For, ast.While))]
    nested_loops = {id(x) for l in loops for c in ast.iter_child_nodes(l) for x in ast.walk(c)}
    loops = [l for l in loops if id(l) not in nested_loops]
    if not loops:
        # no character loop: every return must be a cut judged by (a) (or a regular expression: unknown)
        for r in _returns(g):
            if not (isinstance(r.value, ast.Call) and isinstance(r.value.func, ast.Attribute) and r.value.func.attr in _R18_CUTS):
                raise UnknownIdiom('%s returns %s' % (g.qual, short(r.value, 60)))
        return n_ob
    loop = single(loops, 'character loop', g.qual)
    if isinstance(loop, ast.While):
        n_hop, run.extra['c11_r18'] = _r18_find_hops(run, g, gh, loop)
        return n_ob + n_hop
    if not isinstance(loop, ast.For) or loop.orelse:
        raise UnknownIdiom('%s: %s' % (g.qual, short(loop, 60)))
    it, tgt = loop.iter, loop.target
    if isinstance(it, ast.Call) and isinstance(it.func, ast.Name) and it.func.id == 'enumerate' and len(it.args) == 1 \
            and isinstance(tgt, ast.Tuple) and len(tgt.elts) == 2 and isinstance(tgt.elts[1], ast.Name):
        it, charvar = it.args[0], tgt.elts[1].id
    elif isinstance(tgt, ast.Name):
        charvar = tgt.id
    else:
        raise UnknownIdiom('%s: loop target %s' % (g.qual, short(tgt, 40)))
    if not (isinstance(it, ast.Name) and it.id == gh):
        raise UnknownIdiom('%s: the loop runs over %s, not over the header text' % (g.qual, short(it, 40)))
    init: Dict[str, bool] = {}
    inside = {id(x) for x in ast.walk(loop)}
    for n in walk_self(g.node):
        if isinstance(n, (ast.Assign, ast.AnnAssign)) and id(n) not in inside and isinstance(getattr(n, 'value', None), ast.Constant) \
                and isinstance(n.value.value, bool):
            for t in (n.targets if isinstance(n, ast.Assign) else [n.target]):
                if isinstance(t, ast.Name):
                    if t.id in init:
                        raise UnknownIdiom('%s: %s initialised twice' % (g.qual, t.id))
                    init[t.id] = n.value.value
    if not init:
        raise UnknownIdiom('%s: no boolean state variable in front of the character loop' % g.qual)
    other = next(c for c in 'xyzwvu' if not any(isinstance(n, ast.Constant) and isinstance(n.value, str) and c in n.value for n in ast.walk(loop)))
    chars = [(nm, ch if nm != 'other' else other) for nm, ch in _R18_CHARS]
    start = (tuple(sorted(init.items())), (False, False))
    seen = {start: []}
    queue = [start]
    mismatch = None
    n_steps = 0
    while queue and mismatch is None:
        cur = queue.pop(0)
        cst, rst = cur
        for nm, ch in chars:
            try:
                nst, cut, arms = _r18_code_step(loop.body, dict(cst), charvar, ch)
            except _R18Unreadable as why:
                raise UnknownIdiom('%s: %s in the character loop' % (g.qual, why))
            nref, rcut = _r18_ref_step(rst, ch if nm != 'other' else 'x')
            n_steps += 1
            word = seen[cur] + [nm]
            if cut != rcut:
                mismatch = (word, cut, rcut, arms, cst)
                break
            nxt = (tuple(sorted(nst.items())), nref)
            if nxt not in seen:
                seen[nxt] = word
                queue.append(nxt)
    n_ob += 1
    what = '%s: the character loop cuts exactly at the commas outside quoted strings (DQUOTE toggles the quote state unless escaped, a backslash ' \
           'escapes the next character only inside quotes): equivalent to the RFC 9110 5.6.4 reader on all character sequences ' \
           '(%d product states, %d steps)' % (g.name, len(seen), n_steps)
    if mismatch is None:
        run.ok(what, g.loc(loop), 'for %s in %s' % (short(loop.target, 30), short(loop.iter, 40)))
    else:
        word, cut, rcut, arms, cst = mismatch
        cons = arms[-1] if arms else 'for %s in %s' % (short(loop.target, 30), short(loop.iter, 40))
        run.fail(what, g, cons, where=g.loc(arms[-1]) if arms else g.loc(loop),
                 witness=['after the characters %s the loop %s, the quoted-string reader %s' % (
                     ' '.join(word), 'cuts' if cut else 'does not cut', 'cuts' if rcut else 'does not cut'),
                     'loop state before the last character: %s' % dict(cst)],
                 runtime_witness=_R18_WITNESS_A + '; or \'a/b;p="x\\\\",y", c/d\' is cut inside the quoted value')
    run.extra['c11_r18'] = {'splitter': g.qual, 'state_variables': sorted(init), 'product_states': len(seen)}
    return n_ob


# ---------------------------------------------------------------------------
# R19 negotiation is a function of the CURRENT Accept header (added after
# seeded change s10-c11-1: WSGI Request.accept answered from a `_cached_accept`
# slot filled on the first access; the ASGI twin did not)
# ---------------------------------------------------------------------------
#
# "For every Accept header and candidate list ..." quantifies over the header
# the request carries when client_accepts() / client_prefers() (and the error
# serializer, through them) are asked.  The header lives in the request's header
# table - the WSGI environ, the ASGI header table - which an override
# middleware (`?format=json`, URL suffix) rewrites in place; so the answer is
# computed from that table on every call.  The rule takes the READS CLOSURE of
# the `accept` accessor and of the two negotiators of each flavour (the
# `self.<x>` reads of the body, properties and methods of the class looked
# through): no instance attribute in the closure is a stored copy of a header
# value - an attribute some effective member of the class (the accessor itself,
# __init__, ...) assigns from an expression that reads the header table.  The
# `_cached_*` attributes of the two classes are inventoried against the table
# of today's memoised accessors; an attribute outside the table that
# negotiation does not read is an unknown idiom, not a violation.

REQUEST_FLAVOURS = (('WSGI', 'falcon.request.Request'), ('ASGI', 'falcon.asgi.request.Request'))
# the request's header tables (what a middleware rewrites to override a header)
HEADER_TABLES = {'env': 'the WSGI environ', '_asgi_headers': 'the ASGI header table', 'scope': 'the ASGI connection scope'}
MEMO_PREFIX = '_cached_'
# Frozen table: the accessors memoised per request (attribute `_cached_<name>`), one reason each: all of them are
# derived views of request data that is fixed once the request object exists, and none is an input of negotiation.
MEMOISED_ACCESSORS = {
    'access_route': 'list built once from the forwarding headers and the remote address (documented as computed on first access)',
    'forwarded': 'the parsed Forwarded header elements (parsed once)',
    'forwarded_prefix': 'URL reconstruction from forwarded scheme/host and the root path',
    'forwarded_uri': 'URL reconstruction from forwarded scheme/host and the relative URI',
    'headers': 'the copy of the raw headers handed to the application',
    'headers_lower': 'the lower-cased copy of the raw headers handed to the application',
    'prefix': 'URL reconstruction from scheme, netloc and root path',
    'relative_uri': 'URL reconstruction from root path, path and query string',
    'uri': 'URL reconstruction from scheme, netloc and the relative URI',
    'if_match': 'the parsed ETag list of If-Match',
    'if_none_match': 'the parsed ETag list of If-None-Match',
}
_R19_WITNESS = "req.client_accepts_json (first read of req.accept); a format-override middleware sets env['HTTP_ACCEPT'] = 'application/xml;q=0.9, " \
               "text/html;q=0'; req.client_prefers(('text/html', 'application/xml')) -> 'text/html', client_accepts('text/html') -> True: " \
               'the answers are those of the header first seen, not of the header the request carries'


def _first_param(f: Func) -> Optional[str]:
    a = f.node.args.posonlyargs + f.node.args.args
    return a[0].arg if a else None


class _HeaderLiveness:
    def __init__(self, run, p, cq: str):
        self.run, self.p, self.cq = run, p, cq
        self.members: List[Func] = []
        for k in p.mro(cq):
            c = p.classes.get(k)
            if c is None:
                continue
            for m in list(c.methods.values()) + list(c.accessors.values()):
                if m.name in c.methods and c.methods[m.name] is m and p.lookup_method(cq, m.name) is not m:
                    continue            # overridden: not an effective member
                self.members.append(m)
        self._derived: Dict[str, Optional[Tuple[Func, ast.AST]]] = {}

    # -- reads closure -----------------------------------------------------
    def closure(self, f: Func):
        """(data attribute reads/stores {attr: [(func, node)]}, header table reads [(func, node)], functions looked at)"""
        reads: Dict[str, List[Tuple[Func, ast.AST]]] = {}
        tables: List[Tuple[Func, ast.AST]] = []
        seen: List[Func] = []

        def visit(g: Func, depth: int):
            if any(g is x for x in seen):
                return
            if depth > 4:
                raise UnknownIdiom('%s: the members read by negotiation nest too deeply (%s)' % (f.qual, g.qual))
            seen.append(g)
            sn = _first_param(g)
            for n in walk_self(g.node):
                if isinstance(n, ast.Attribute) and isinstance(n.value, ast.Name) and n.value.id == sn:
                    if n.attr in HEADER_TABLES:
                        tables.append((g, n))
                        continue
                    m = self.p.lookup_method(self.cq, n.attr)
                    if m is not None and isinstance(n.ctx, ast.Load):
                        visit(m, depth + 1)
                    elif m is None:
                        reads.setdefault(n.attr, []).append((g, n))
        visit(f, 0)
        return reads, tables, seen

    # -- is an attribute a stored copy of a header value? ---------------------
    def _table_aliases(self, m: Func) -> Set[str]:
        """locals / parameters of `m` that ARE a header table (`self.env = env`)"""
        sn = _first_param(m)
        out = set()
        for n in walk_self(m.node):
            if isinstance(n, ast.Assign) and isinstance(n.value, ast.Name):
                for t in n.targets:
                    if isinstance(t, ast.Attribute) and isinstance(t.value, ast.Name) and t.value.id == sn and t.attr in HEADER_TABLES:
                        out.add(n.value.id)
        return out

    def touches_table(self, m: Func, e, aliases: Set[str], depth=0, seen=()) -> bool:
        if e is None or depth > 8:
            return False
        sn = _first_param(m)
        for x in ast.walk(e):
            if isinstance(x, ast.Attribute) and isinstance(x.value, ast.Name) and x.value.id == sn:
                if x.attr in HEADER_TABLES:
                    return True
                g = self.p.lookup_method(self.cq, x.attr)
                if g is not None and g is not m:
                    try:
                        if self.closure(g)[1]:
                            return True
                    except UnknownIdiom:
                        return True
            elif isinstance(x, ast.Name) and isinstance(x.ctx, ast.Load):
                if x.id in aliases:
                    return True
                if x.id in seen:
                    continue
                for st, v in _assignments(m.node, x.id):
                    src = v
                    if src is None and isinstance(st, (ast.For, ast.AsyncFor)):
                        src = st.iter
                    elif src is None and isinstance(st, ast.Assign):
                        src = st.value
                    if src is not None and self.touches_table(m, src, aliases, depth + 1, seen + (x.id,)):
                        return True
        return False

    def header_copy(self, attr: str) -> Optional[Tuple[Func, ast.AST]]:
        """(member, store statement) when some effective member assigns `self.<attr>` from the header table, else None"""
        if attr in self._derived:
            return self._derived[attr]
        self._derived[attr] = None
        for m in self.members:
            sn = _first_param(m)
            if sn is None:
                continue
            aliases = self._table_aliases(m)
            for n in walk_self(m.node):
                tgts, v = [], None
                if isinstance(n, ast.Assign):
                    tgts, v = [x for t in n.targets for x in (t.elts if isinstance(t, (ast.Tuple, ast.List)) else [t])], n.value
                elif isinstance(n, (ast.AnnAssign, ast.AugAssign)) and n.value is not None:
                    tgts, v = [n.target], n.value
                elif isinstance(n, ast.NamedExpr):
                    tgts, v = [n.target], n.value
                if any(isinstance(t, ast.Attribute) and isinstance(t.value, ast.Name) and t.value.id == sn and t.attr == attr for t in tgts):
                    if self.touches_table(m, v, aliases):
                        self._derived[attr] = (m, n)
                        return self._derived[attr]
                    # a container stored empty and filled afterwards (`headers = self._cached_headers = {}` ...
                    # `headers[name] = value`): the fills through the attribute or a co-bound local count as stores
                    names = {t.id for t in tgts if isinstance(t, ast.Name)} | ({v.id} if isinstance(v, ast.Name) else set())
                    fill = self._fill_from_table(m, sn, attr, names, aliases)
                    if fill is not None:
                        self._derived[attr] = (m, fill)
                        return self._derived[attr]
        return None

    _FILLERS = ('append', 'extend', 'insert', 'add', 'update', 'setdefault', '__setitem__')

    def _fill_from_table(self, m: Func, sn: str, attr: str, names: Set[str], aliases: Set[str]):
        def is_box(e) -> bool:
            return (isinstance(e, ast.Name) and e.id in names) or \
                (isinstance(e, ast.Attribute) and isinstance(e.value, ast.Name) and e.value.id == sn and e.attr == attr)

        for n in walk_self(m.node):
            if isinstance(n, (ast.Assign, ast.AugAssign)):
                tgts = n.targets if isinstance(n, ast.Assign) else [n.target]
                if any(isinstance(t, ast.Subscript) and is_box(t.value) for t in tgts) and self.touches_table(m, n.value, aliases):
                    return n
            elif isinstance(n, ast.Call) and isinstance(n.func, ast.Attribute) and n.func.attr in self._FILLERS and is_box(n.func.value):
                if any(self.touches_table(m, a, aliases) for a in list(n.args) + [k.value for k in n.keywords]):
                    return n
        return None

    # -- the `_cached_*` inventory ------------------------------------------------
    def memo_attrs(self) -> Dict[str, str]:
        """`_cached_*` attribute -> where it is declared (slot / class attribute / store), over the MRO"""
        out: Dict[str, str] = {}
        for k in self.p.mro(self.cq):
            c = self.p.classes.get(k)
            if c is None:
                continue
            slots = c.attrs.get('__slots__')
            if slots is not None:
                v = self.p.fold(c.module.name, slots, c)
                if v is UNKNOWN or isinstance(v, (str, bytes)) or not all(isinstance(x, str) for x in v):
                    raise UnknownIdiom('%s.__slots__ does not fold to a sequence of names' % k)
                for x in v:
                    if x.startswith(MEMO_PREFIX):
                        out.setdefault(x, '%s.__slots__' % k)
            for a in c.attrs:
                if a.startswith(MEMO_PREFIX):
                    out.setdefault(a, 'class attribute of %s' % k)
            for st in c.node.body:
                if isinstance(st, ast.AnnAssign) and isinstance(st.target, ast.Name) and st.target.id.startswith(MEMO_PREFIX):
                    out.setdefault(st.target.id, 'class attribute of %s' % k)
        for m in self.members:
            sn = _first_param(m)
            for n in walk_self(m.node):
                if isinstance(n, ast.Attribute) and isinstance(n.ctx, ast.Store) and isinstance(n.value, ast.Name) and n.value.id == sn \
                        and n.attr.startswith(MEMO_PREFIX):
                    out.setdefault(n.attr, 'stored by %s' % m.qual)
        return out


def r19_negotiation_reads_live_header(run):
    """Request.accept / client_accepts() / client_prefers() of both flavours answer from the request's header table on
    every call: no attribute they read is a stored copy of a header value.  W: read req.accept once, let a
    format-override middleware rewrite env['HTTP_ACCEPT'], negotiate again -> the answer is that of the old header."""
    p = run.project
    reported: Set[Tuple[str, str]] = set()
    negotiation_attrs: Set[str] = set()
    inventories = []
    for tag, cq in REQUEST_FLAVOURS:
        p.cls(cq)
        H = _HeaderLiveness(run, p, cq)
        acc = p.lookup_method(cq, ACCEPT_ATTR)
        if acc is None or not acc.is_property():
            raise AnchorError('%s.%s: property not found' % (cq, ACCEPT_ATTR))
        entries = [(ACCEPT_ATTR, acc)]
        for name in sorted(NEGOTIATORS):
            f = p.lookup_method(cq, name)
            if f is None:
                raise AnchorError('%s.%s not found' % (cq, name))
            entries.append((name, f))
        for name, f in entries:
            reads, tables, funcs = H.closure(f)
            for g in funcs:
                run.use(g)
            if name != ACCEPT_ATTR and not any(g is acc for g in funcs):
                raise UnknownIdiom('%s %s.%s does not read the header through self.%s' % (tag, cq, name, ACCEPT_ATTR))
            if not tables and not any(H.header_copy(a) is not None for a in reads):
                raise AnchorError('%s %s.%s: no read of the request header table (%s) found in it or in the members it reads' % (
                    tag, cq, name, ' / '.join('self.' + t for t in sorted(HEADER_TABLES))))
            bad = 0
            for attr in sorted(reads):
                negotiation_attrs.add(attr)
                src = H.header_copy(attr)
                if src is None:
                    continue
                bad += 1
                g, node = reads[attr][0]
                if (g.qual, attr) in reported:
                    continue
                reported.add((g.qual, attr))
                run.fail('%s: the Accept header is taken from the request header table on every call - `self.%s` is a copy of a header value '
                         'stored by %s (`%s`), so negotiation keeps answering for the header first seen' % (name, attr, src[0].qual, short(src[1], 70)),
                         g, 'self.%s' % attr, where=g.loc(node),
                         witness=['%s reads self.%s' % (x.qual, attr) for x, _n in reads[attr][:3]] + ['%s: %s' % (src[0].loc(src[1]), short(src[1], 90))],
                         runtime_witness=_R19_WITNESS)
            if not bad:
                run.ok('%s %s: computed from the request header table (%s) on every call; no attribute read on the way is a stored copy of a '
                       'header value' % (tag, name, ', '.join(sorted({'self.' + n.attr for _g, n in tables}))), f.loc(), '%s %s' % (tag, name))
        inventories.append((tag, cq, H, H.memo_attrs()))
    # the memoised accessors are the tabled ones
    for tag, cq, H, memo in inventories:
        if not memo:
            raise AnchorError('%s: no %s* attribute found' % (cq, MEMO_PREFIX))
        for a in sorted(memo):
            name = a[len(MEMO_PREFIX):]
            if a in negotiation_attrs:
                if H.header_copy(a) is None:
                    raise UnknownIdiom('%s: negotiation reads the memo attribute self.%s, whose provenance the rule does not read' % (cq, a))
                continue            # reported above
            if name not in MEMOISED_ACCESSORS:
                raise UnknownIdiom('%s: memo attribute %s (%s) is outside the tabled set of memoised accessors; negotiation does not read it as far '
                                   'as the rule sees' % (cq, a, memo[a]))
            run.ok('%s: the memoised accessor `%s` is a tabled one (%s) and is not read by negotiation' % (tag, name, MEMOISED_ACCESSORS[name]),
                   p.cls(cq).loc(), '%s %s' % (tag, a))
