"""C12 - media round trip, request media parsed at most once (DESIGN.md section 3, C12).

R1  parse-once discipline of both Request.get_media (typestate-style
    dominance/path queries + WSGI/ASGI event-language equality + ownership of
    the two cache attributes); the cached error object is re-raised untouched
    (`raise <cached> from <x>` rewrites its __cause__)
R2  handler error mapping (JSON, URL-encoded) to the two 400-class errors
R3  codec agreement of each serializer/deserializer pair
R4  response render cache (writers reset it; the three render_body siblings
    render only when it is unset; the "render the media" step may live in an
    argument-less method of the same class called on `self` - _RenderHelper -
    that returns the rendition, itself stores it, or stores it AND returns what
    the cache holds (k2-c12-2: `data = self._render_media()`; a returned local
    read from the cache before the store is a violation); the cache test may
    look at a local bound to the cache read with no write in between)
R5  handler resolution in one case form (C11 R9)
R6  the form serializer's quoting function is injective on text
R7  the form reader answers "malformed" only for a failure of its parsing
    primitives: no explicit raise / assert decided by a test on percent-DECODED
    content (every string is a legitimate form value)

R8  a (de)serializer slot without a working class-level fallback is bound on
    every constructor path
R9  the ASGI sync shortcut slots are bound only under an exact-type test of self
    (or a test covering every public method they replace); the consumers are
    looked through same-class helpers that hold the `_resolve(...)` unpacking
R10 deserialize_async parses the whole body once, like its sync sibling

Roles come from contract names (`_media`, `_media_error`, `_media_rendered`,
`_resolve`, `exhaust_stream`, `deserialize*`, `serialize*`, parameter and
tuple positions) and def-use from them.
"""

from __future__ import annotations

import ast
from typing import Dict, List, Optional, Set, Tuple

from .. import flow
from ..cfg import cfg_of
from ..model import UNKNOWN, AnchorError, Func, UnknownIdiom, dotted, func_owner_class, short, walk_no_nested
from .c10 import _feasible
from .c11 import _Escape, _assignments, _chain, _guard_verdict, _safe, _truthiness
from .common import enclosing_map, implied, single, strip_await, walk_self

WSGI_GET = 'falcon.request.Request.get_media'
ASGI_GET = 'falcon.asgi.request.Request.get_media'
NOT_FOUND = 'falcon.errors.MediaNotFoundError'
MALFORMED = 'falcon.errors.MediaMalformedError'
UTF8 = {'utf-8', 'utf8', 'utf_8'}
ASCII = {'ascii', 'us-ascii', 'us_ascii'}


def _norm_codec(c) -> Optional[str]:
    if not isinstance(c, str):
        return None
    c = c.lower().replace('_', '-')
    if c in ('utf-8', 'utf8'):
        return 'utf-8'
    if c in ('ascii', 'us-ascii'):
        return 'ascii'
    if c in ('latin-1', 'latin1', 'iso-8859-1', 'iso8859-1'):
        return 'latin-1'
    return c


def _codec_of(call: ast.Call):
    """(codec, errors) of an `.encode(...)`/`.decode(...)` call; defaults utf-8/strict; None for non-constants."""
    codec, errors = 'utf-8', 'strict'
    a = list(call.args)
    if a:
        codec = a[0].value if isinstance(a[0], ast.Constant) else None
    if len(a) > 1:
        errors = a[1].value if isinstance(a[1], ast.Constant) else None
    for k in call.keywords:
        if k.arg == 'encoding':
            codec = k.value.value if isinstance(k.value, ast.Constant) else None
        elif k.arg == 'errors':
            errors = k.value.value if isinstance(k.value, ast.Constant) else None
    return _norm_codec(codec), errors


def _is_attr_of(e, base: str, attr: str) -> bool:
    return isinstance(e, ast.Attribute) and e.attr == attr and isinstance(e.value, ast.Name) and e.value.id == base


def _is_unset(p, f: Func, e) -> bool:
    if isinstance(e, (ast.Name, ast.Attribute)):
        q = p.resolve_expr(f.module, e, f)
        return bool(q) and q.endswith('._UNSET')
    return False


def _writes(node, attr: str) -> List[ast.AST]:
    """targets `<x>.attr` written by a simple statement."""
    tgts = []
    if isinstance(node, ast.Assign):
        tgts = list(node.targets)
    elif isinstance(node, (ast.AnnAssign, ast.AugAssign)):
        if not (isinstance(node, ast.AnnAssign) and node.value is None):
            tgts = [node.target]
    elif isinstance(node, ast.Delete):
        tgts = list(node.targets)
    flat = []
    for t in tgts:
        flat.extend(t.elts if isinstance(t, (ast.Tuple, ast.List)) else [t])
    return [t for t in flat if isinstance(t, ast.Attribute) and t.attr == attr]


# ---------------------------------------------------------------------------
# R1 get_media
# ---------------------------------------------------------------------------

class _GetMedia:
    def __init__(self, p, qual: str):
        self.p = p
        self.f = f = p.func(qual)
        self.cfg = cfg = cfg_of(f, p)
        params = [a.arg for a in f.node.args.args]
        if len(params) != 2 or params[0] != 'self':
            raise UnknownIdiom('%s takes %s' % (qual, params))
        self.dflt = params[1]
        # the unpacking of self.options.media_handlers._resolve(...)
        self.handler = self.sync = None
        self.resolve_nodes = []
        for n in cfg.live_nodes():
            for c in n.calls():
                if isinstance(c.func, ast.Attribute) and c.func.attr == '_resolve':
                    self.resolve_nodes.append(n)
                    if n.kind == 'stmt' and isinstance(n.ast, ast.Assign) and len(n.ast.targets) == 1 \
                            and isinstance(n.ast.targets[0], ast.Tuple) and len(n.ast.targets[0].elts) == 3:
                        t = n.ast.targets[0].elts
                        if isinstance(t[0], ast.Name):
                            self.handler = t[0].id
                        if isinstance(t[2], ast.Name) and t[2].id != '_':
                            self.sync = t[2].id
                    else:
                        raise UnknownIdiom('%s: result of _resolve() is not unpacked into three names' % qual)
        if not self.resolve_nodes or self.handler is None:
            raise AnchorError('%s: handler resolution not found' % qual)
        self.deser_nodes = [n for n in cfg.live_nodes() if any(self.is_deser(c) for c in n.calls())]
        if not self.deser_nodes:
            raise AnchorError('%s: deserialize call not found' % qual)
        self.stream_nodes = [n for n in cfg.live_nodes() if n.kind != 'handler' and any(
            _is_attr_of(x, 'self', 'stream') or _is_attr_of(x, 'self', 'bounded_stream') for x in n.walk())]
        self.setval = [n for n in cfg.live_nodes() if n.kind == 'stmt' and any(_is_attr_of(t, 'self', '_media') for t in _writes(n.ast, '_media'))]
        self.seterr = [n for n in cfg.live_nodes() if n.kind == 'stmt' and any(_is_attr_of(t, 'self', '_media_error') for t in _writes(n.ast, '_media_error'))]
        self.exhaust = [n for n in cfg.live_nodes() if any(isinstance(c.func, ast.Attribute) and c.func.attr == 'exhaust' for c in n.calls())]
        self.exh_tests = [n for n in cfg.live_nodes() if n.kind == 'test' and any(self.is_exh_flag(x) for x in walk_self(n.ast))]

    # ------------------------------------------------------------- matchers
    def is_deser(self, c: ast.Call) -> bool:
        f = c.func
        if isinstance(f, ast.Attribute) and isinstance(f.value, ast.Name) and f.value.id == self.handler and f.attr.startswith('deserialize'):
            return True
        return self.sync is not None and isinstance(f, ast.Name) and f.id == self.sync

    def is_exh_flag(self, e) -> bool:
        return isinstance(e, ast.Attribute) and e.attr == 'exhaust_stream' and isinstance(e.value, ast.Name) and e.value.id == self.handler

    def media_cmp(self, attr):
        """atom: `self.<attr> is/is not <sentinel>`; returns a function giving
        'cached' truth for (test, edge truth) or None."""
        p, f = self.p, self.f

        def is_atom(e):
            if isinstance(e, ast.Compare) and len(e.ops) == 1 and isinstance(e.ops[0], (ast.Is, ast.IsNot)) and _is_attr_of(e.left, 'self', attr):
                r = e.comparators[0]
                if attr == '_media':
                    return _is_unset(p, f, r)
                return isinstance(r, ast.Constant) and r.value is None
            return False

        def cached(test, truth) -> Optional[bool]:
            atoms = [x for x in walk_self(test) if is_atom(x)]
            for a in atoms:
                r = implied(test, truth, lambda e, a=a: e is a)
                if r is None:
                    continue
                return r if isinstance(a.ops[0], ast.IsNot) else (not r)
            return None
        return cached

    def edges(self, fn) -> List[Tuple[int, int, str, bool]]:
        out = []
        for n in self.cfg.live_nodes():
            if n.kind == 'test':
                for (y, l) in self.cfg.succ[n.id]:
                    if l in ('T', 'F'):
                        r = fn(n.ast, l == 'T')
                        if r is not None:
                            out.append((n.id, y, l, r))
        return out

    def is_retdef(self, n) -> bool:
        return n.kind == 'stmt' and isinstance(n.ast, ast.Return) and isinstance(n.ast.value, ast.Name) and n.ast.value.id == self.dflt

    def is_retval(self, n) -> bool:
        return n.kind == 'stmt' and isinstance(n.ast, ast.Return) and _is_attr_of(n.ast.value, 'self', '_media')

    # ------------------------------------------------------------ labelling
    def labels(self, n) -> List[str]:
        out = []
        if n.kind in ('join', 'iter'):
            return out
        if n in self.resolve_nodes:
            out.append('^RESOLVE')
        if n in self.deser_nodes:
            out.append('^DESER')
        if n in self.setval:
            out.append('SETVAL')
        if n in self.seterr:
            out.append('SETERR')
        if n in self.exhaust:
            out.append('^EXHAUST')
        if n.kind == 'stmt' and isinstance(n.ast, ast.Raise):
            out.append('^RAISE')
        if self.is_retdef(n):
            out.append('RETDEF')
        if self.is_retval(n):
            out.append('RETVAL')
        return out

    def edge_label(self, a, b, l) -> Optional[str]:
        n = self.cfg.node(a)
        if l == 'exc':
            tgt = self.cfg.node(b)
            if tgt.kind == 'handler':
                return 'X:' + self._handler_name(tgt)
            return 'X'
        if n.kind == 'test' and l in ('T', 'F'):
            t = l == 'T'
            # the two cache tests are deliberately not events: their relative order is immaterial (the attributes are
            # mutually exclusive) and their effect is decided by the dominance obligations above
            evs = []
            r = _truthiness(n.ast, t, self.is_exh_flag)
            if r is not None:
                evs.append('EXH+' if r else 'EXH-')
            if evs:
                return '.'.join(evs)
        return None

    def _handler_name(self, hn) -> str:
        h = hn.ast
        if h.type is None:
            return 'bare'
        types = h.type.elts if isinstance(h.type, ast.Tuple) else [h.type]
        return '|'.join(sorted((self.p.resolve_expr(self.f.module, t, self.f) or short(t)).rsplit('.', 1)[-1] for t in types))

    def is_caught_name(self, e) -> bool:
        """`err` of an `except ... as err` of this function, bound nowhere else: the exception that arm caught"""
        return isinstance(e, ast.Name) and e.id not in self.f.params() and not _assignments(self.f.node, e.id) \
            and any(n.kind == 'handler' and n.ast.name == e.id for n in self.cfg.live_nodes())

    # -------------------------------------------------- class split of a broad handler
    def handler_splits(self) -> Dict[int, Tuple[str, bool]]:
        """handler node id -> (C, C may arrive): a handler `except <broad> as err` whose arm tests `isinstance(err, C)` (C a strict
        subclass of what the arm catches) stands for the two arms `except C` / `except <broad>`; `C may arrive` is False when an
        earlier arm of the same try already takes C."""
        p, f, cfg = self.p, self.f, self.cfg
        out = {}
        for h in cfg.live_nodes():
            if h.kind != 'handler' or not h.ast.name or not self.is_caught_name(ast.Name(id=h.ast.name)):
                continue
            if sum(1 for n in cfg.live_nodes() if n.kind == 'handler' and n.ast.name == h.ast.name and n.ast is not h.ast) > 0:
                continue
            types = [] if h.ast.type is None else (h.ast.type.elts if isinstance(h.ast.type, ast.Tuple) else [h.ast.type])
            caught = [p.resolve_expr(f.module, t, f) for t in types] or ['builtins.BaseException']
            classes = set()
            for x in walk_self(ast.Module(body=h.ast.body, type_ignores=[])):
                if isinstance(x, ast.Call) and isinstance(x.func, ast.Name) and x.func.id == 'isinstance' and len(x.args) == 2 \
                        and isinstance(x.args[0], ast.Name) and x.args[0].id == h.ast.name:
                    classes.add(p.resolve_expr(f.module, x.args[1], f) if not isinstance(x.args[1], ast.Tuple) else None)
            if len(classes) != 1 or None in classes:
                continue
            c = next(iter(classes))
            if c in caught or not any(q and p.is_subclass(c, q) is True for q in caught):
                continue
            earlier = False
            tr = h.stmt if isinstance(h.stmt, ast.Try) else None
            if tr is not None:
                for arm in tr.handlers:
                    if arm is h.ast:
                        break
                    ts = [] if arm.type is None else (arm.type.elts if isinstance(arm.type, ast.Tuple) else [arm.type])
                    if arm.type is None or any(p.is_subclass(c, p.resolve_expr(f.module, t, f) or '?') is True for t in ts):
                        earlier = True
            out[h.id] = (c, not earlier)
        return out

    def project_split(self):
        """flow.project of the event alphabet, path-sensitive for the class of the caught exception: the exceptional edge
        into a split handler emits X:<C> / X:<broad> and enters the copy of the graph in which every later
        `isinstance(err, C)` test has the matching outcome only.  The folded arm thereby projects onto the words of the
        two-arm form."""
        p, f, cfg = self.p, self.f, self.cfg
        splits = self.handler_splits()
        names = {cfg.node(h).ast.name: c for h, (c, _) in splits.items()}
        if len(set(names.values())) > 1:
            raise UnknownIdiom('%s: several handlers split by isinstance tests' % f.qual)
        C = next(iter(names.values()), None)

        def cannot_raise(n) -> bool:
            """a test whose only calls are isinstance(<name or self attribute>, <a class we resolve>)"""
            calls = n.calls()
            return n.kind == 'test' and bool(calls) and all(
                isinstance(c.func, ast.Name) and c.func.id == 'isinstance' and len(c.args) == 2 and not c.keywords
                and (isinstance(c.args[0], ast.Name) or _is_attr_of(c.args[0], 'self', c.args[0].attr if isinstance(c.args[0], ast.Attribute) else ''))
                and (p.resolve_expr(f.module, c.args[1], f) or '') in p.classes for c in calls)

        def feasible(n, truth, bit) -> bool:
            for a in [x for x in walk_self(n.ast) if isinstance(x, ast.Call) and isinstance(x.func, ast.Name) and x.func.id == 'isinstance'
                      and len(x.args) == 2 and isinstance(x.args[0], ast.Name) and x.args[0].id in names]:
                r = implied(n.ast, truth, lambda e, a=a: e is a)
                if r is None:
                    continue
                q = p.resolve_expr(f.module, a.args[1], f)
                if bit == 'C' and q and p.is_subclass(C, q) is True and r is False:
                    return False
                if bit == 'N' and q == C and r is True:
                    return False
            return True

        nfa = flow.NFA()
        ins, mids, outs = {}, {}, {}
        live = cfg.reachable_ids
        bits = ('-', 'C', 'N')
        for bit in bits:
            for n in cfg.nodes:
                if n.id not in live:
                    continue
                cur = ins[(n.id, bit)] = nfa.new()
                labels = list(self.labels(n)) if n.kind not in ('entry', 'exit', 'xexit') else []
                for lab in [l for l in labels if l.startswith('^')]:
                    nxt = nfa.new()
                    nfa.add(cur, lab[1:], nxt, n.id)
                    cur = nxt
                mids[(n.id, bit)] = cur
                for lab in [l for l in labels if not l.startswith('^')]:
                    nxt = nfa.new()
                    nfa.add(cur, lab, nxt, n.id)
                    cur = nxt
                outs[(n.id, bit)] = cur
        for bit in bits:
            for n in cfg.nodes:
                if n.id not in live:
                    continue
                for (y, l) in cfg.succ[n.id]:
                    src = mids[(n.id, bit)] if l == 'exc' else outs[(n.id, bit)]
                    if l == 'exc' and cannot_raise(n):
                        continue
                    if l == 'exc' and y in splits and bit == '-':
                        c, arrives = splits[y]
                        if arrives:
                            nfa.add(src, 'X:' + c.rsplit('.', 1)[-1], ins[(y, 'C')], n.id)
                        nfa.add(src, 'X:' + self._handler_name(cfg.node(y)), ins[(y, 'N')], n.id)
                        continue
                    if bit != '-' and n.kind == 'test' and l in ('T', 'F') and not feasible(n, l == 'T', bit):
                        continue
                    nfa.add(src, self.edge_label(n.id, y, l), ins[(y, bit)], n.id)
        nfa.start = ins[(cfg.entry, '-')]
        fin = nfa.new()
        nfa.accept.add(fin)
        for bit in bits:
            nfa.accept.add(outs[(cfg.exit, bit)])
            nfa.add(outs[(cfg.xexit, bit)], '!raise', fin, cfg.xexit)
        return nfa


def _check_get_media(run, qual: str):
    p = run.project
    g = _GetMedia(p, qual)
    f, cfg = g.f, g.cfg
    run.use_cfg(cfg)
    tag = 'ASGI' if f.is_async else 'WSGI'
    val_edges = g.edges(g.media_cmp('_media'))
    err_edges = g.edges(g.media_cmp('_media_error'))
    # a test that mentions a cache attribute in a shape we cannot read is an unknown idiom, not a missing check
    for attr, edges in (('_media', val_edges), ('_media_error', err_edges)):
        for n in cfg.live_nodes():
            if n.kind == 'test' and any(_is_attr_of(x, 'self', attr) for x in walk_self(n.ast)) \
                    and not any(e[0] == n.id for e in edges):
                if attr == '_media_error' and any(isinstance(x, ast.Call) and isinstance(x.func, ast.Name) and x.func.id == 'isinstance'
                                                  for x in walk_self(n.ast)):
                    continue
                raise UnknownIdiom('%s: test %s of the cache attribute %s' % (qual, short(n.ast, 80), attr))

    def loc(n):
        return '%s:%s' % (f.file, n.lineno)

    # (a) cache tests dominate resolution, deserialization and stream access
    work = []
    for n in g.resolve_nodes:
        work.append(('handler resolution', n))
    for n in g.deser_nodes:
        work.append(('deserialization', n))
    for n in g.stream_nodes:
        if n not in g.deser_nodes:
            work.append(('stream access', n))
    for what, n in work:
        ok_v = any((not c) and flow.dominated_by_edge(cfg, n.id, (a, b, l)) for (a, b, l, c) in val_edges)
        ok_e = any((not c) and flow.dominated_by_edge(cfg, n.id, (a, b, l)) for (a, b, l, c) in err_edges)
        run.check(ok_v, '%s: %s happens only after the cached value was found unset' % (tag, what), f, n.ast if n.ast is not None else n.text(),
                  where=loc(n), runtime_witness='a second get_media() parses (and consumes the stream) again')
        run.check(ok_e, '%s: %s happens only after the cached error was found unset' % (tag, what), f, n.ast if n.ast is not None else n.text(),
                  where=loc(n), runtime_witness='get_media() after a failed parse touches the exhausted stream instead of re-raising')

    busy = {n.id for n in g.resolve_nodes + g.deser_nodes + g.stream_nodes + g.setval + g.seterr}
    # (b) cache hits answer from the cache alone
    for (a, b, l, c) in val_edges:
        if not c:
            continue
        reach = flow.reachable(cfg, [b])
        bad = sorted(reach & busy)
        rets = [cfg.node(x) for x in reach if cfg.node(x).kind == 'stmt' and isinstance(cfg.node(x).ast, ast.Return)]
        ok = not bad and rets and all(g.is_retval(r) for r in rets) and \
            not any(cfg.node(x).kind == 'stmt' and isinstance(cfg.node(x).ast, ast.Raise) for x in reach)
        run.check(bool(ok), '%s: a cached value is returned as is, without touching handler, stream or cache' % tag, f, cfg.node(a).ast,
                  where=loc(cfg.node(a)), witness=[cfg.node(x).text() for x in bad[:4]],
                  runtime_witness='the second get_media() returns a different object')
    def is_cached_error(e) -> bool:
        # `self._media_error`, or a local bound once to it
        if _is_attr_of(e, 'self', '_media_error'):
            return True
        if isinstance(e, ast.Name) and e.id not in f.params():
            binds = _assignments(f.node, e.id)
            return len(binds) == 1 and binds[0][1] is not None and _is_attr_of(binds[0][1], 'self', '_media_error')
        return False

    reraises: Dict[int, ast.Raise] = {}
    for (a, b, l, c) in err_edges:
        if not c:
            continue
        reach = flow.reachable(cfg, [b])
        bad = sorted(reach & busy)
        ends_ok = True
        for x in reach:
            nx = cfg.node(x)
            if nx.kind == 'stmt' and isinstance(nx.ast, ast.Return) and not g.is_retdef(nx):
                ends_ok = False
            if nx.kind == 'stmt' and isinstance(nx.ast, ast.Raise) and not is_cached_error(nx.ast.exc):
                ends_ok = False
            elif nx.kind == 'stmt' and isinstance(nx.ast, ast.Raise):
                reraises[id(nx.ast)] = nx
        run.check(not bad and ends_ok and cfg.exit not in flow.reachable(cfg, [b], avoid_nodes=[x for x in reach if cfg.node(x).kind == 'stmt'
                  and isinstance(cfg.node(x).ast, (ast.Return, ast.Raise))], edge_filter=flow.no_exc),
                  '%s: a cached error is re-raised as is (or answered by the default), without touching handler, stream or cache' % tag, f,
                  cfg.node(a).ast, where=loc(cfg.node(a)), witness=[cfg.node(x).text() for x in bad[:4]],
                  runtime_witness='the second get_media() after a failure raises a different error or parses again')

    # (b') "re-raise the same error": the cached exception OBJECT is raised untouched.  `raise <cached> from <x>` assigns
    # <cached>.__cause__ (and __suppress_context__) on the cached object itself; MediaMalformedError.description is
    # computed from __cause__, so the second access renders another 400 document than the first.
    if not reraises:
        raise AnchorError('%s: re-raise of the cached error not found' % qual)
    for nx in reraises.values():
        run.check(nx.ast.cause is None, '%s: the cached error is re-raised as it is - `raise <cached error> from <x>` rewrites __cause__ of the '
                  'cached exception object' % tag, f, nx.ast, where=loc(nx),
                  runtime_witness='malformed JSON body, req.media twice: the first 400 says "Could not parse JSON body - Expecting value: ...", '
                                  'the second only "Could not parse JSON body" (description is computed from __cause__)')

    # (c) the deserialized value is stored on the normal edge
    for n in g.deser_nodes:
        if n in g.setval:
            run.ok('%s: the result of deserialization is stored in the cache by the same statement' % tag, loc(n), n.ast)
        else:
            succs = [y for (y, l) in cfg.succ[n.id] if l != 'exc']
            path = flow.find_path(cfg, succs, [cfg.exit], avoid_nodes=[x.id for x in g.setval], edge_filter=flow.no_exc)
            run.check(path is None, '%s: the result of deserialization is stored in the cache before returning' % tag, f, n.ast, where=loc(n),
                      witness=flow.describe_path(cfg, path) if path else None, runtime_witness='every get_media() parses again')
    # (d) an exception out of deserialization is stored before it leaves
    for n in g.deser_nodes:
        excs = [y for (y, l) in cfg.succ[n.id] if l == 'exc']
        if not excs:
            raise UnknownIdiom('%s: deserialization without exceptional edge' % qual)
        for y in excs:
            path = flow.find_path(cfg, [y], [cfg.exit, cfg.xexit], avoid_nodes=[x.id for x in g.seterr])
            tgt = cfg.node(y)
            run.check(path is None, '%s: an exception raised by deserialization is stored as the cached error before it leaves get_media (%s)' % (
                tag, 'handler ' + g._handler_name(tgt) if tgt.kind == 'handler' else 'unhandled'), f,
                tgt.ast if tgt.kind == 'handler' and tgt.ast.type is not None else n.ast, where=loc(tgt if tgt.kind == 'handler' else n),
                witness=flow.describe_path(cfg, [n.id] + path) if path else None,
                runtime_witness='a failed get_media() is retried on the consumed stream instead of re-raising the same error')
    # (e) exhaust in finally, under handler.exhaust_stream
    exh_test_ids = [n.id for n in g.exh_tests]
    for n in g.deser_nodes:
        succs = [y for (y, l) in cfg.succ[n.id]]
        path = flow.find_path(cfg, succs, [cfg.exit, cfg.xexit], avoid_nodes=exh_test_ids)
        run.check(path is None, '%s: after a deserialization attempt every exit (normal, default, raising) consults handler.exhaust_stream' % tag, f,
                  n.ast, where=loc(n), witness=flow.describe_path(cfg, [n.id] + path) if path else None,
                  runtime_witness='a handler with exhaust_stream leaves unread body bytes when it raises')
    for t in g.exh_tests:
        for (y, l) in cfg.succ[t.id]:
            if l in ('T', 'F') and _truthiness(t.ast, l == 'T', g.is_exh_flag) is True:
                path = flow.find_path(cfg, [y], [cfg.exit, cfg.xexit], avoid_nodes=[x.id for x in g.exhaust])
                run.check(path is None, '%s: with handler.exhaust_stream set the stream is exhausted' % tag, f, t.ast, where=loc(t),
                          witness=flow.describe_path(cfg, path) if path else None)
    for x in g.exhaust:
        verdict, tn = _guard_verdict(cfg, x.id, g.is_exh_flag, True)
        if verdict == 'unknown':
            raise UnknownIdiom('%s: test %s' % (qual, short(tn.ast, 60)))
        run.check(verdict == 'proved', '%s: the stream is exhausted only on behalf of a handler that asks for it' % tag, f, x.ast, where=loc(x))

    # (f) the default is returned only for MediaNotFoundError and only when given
    def is_dflt(e):
        return isinstance(e, ast.Name) and e.id == g.dflt

    def dflt_given(test, truth):
        for a in [x for x in walk_self(test) if isinstance(x, ast.Compare) and len(x.ops) == 1 and is_dflt(x.left)
                  and isinstance(x.ops[0], (ast.Is, ast.IsNot)) and _is_unset(p, f, x.comparators[0])]:
            r = implied(test, truth, lambda e, a=a: e is a)
            if r is not None:
                return r if isinstance(a.ops[0], ast.IsNot) else (not r)
        return None

    def nf_instance(test, truth):
        for a in [x for x in walk_self(test) if isinstance(x, ast.Call) and isinstance(x.func, ast.Name) and x.func.id == 'isinstance'
                  and len(x.args) == 2 and (is_cached_error(x.args[0]) or g.is_caught_name(x.args[0]))]:
            q = p.resolve_expr(f.module, a.args[1], f)
            if q and p.is_subclass(q, NOT_FOUND) is True:
                r = implied(test, truth, lambda e, a=a: e is a)
                if r is not None:
                    return r
        return None

    given_edges = [(a, b, l) for (a, b, l, c) in g.edges(dflt_given) if c]
    nf_edges = [(a, b, l) for (a, b, l, c) in g.edges(nf_instance) if c]
    retdefs = [n for n in cfg.live_nodes() if g.is_retdef(n)]
    if not retdefs:
        raise AnchorError('%s: no return of the default' % qual)
    for n in retdefs:
        run.check(any(flow.dominated_by_edge(cfg, n.id, e) for e in given_edges),
                  '%s: the default is returned only when the caller supplied one' % tag, f, n.ast, where=loc(n),
                  runtime_witness='get_media() returns the _UNSET sentinel')
        by_handler = False
        for h in cfg.live_nodes():
            if h.kind == 'handler' and flow.dominated_by_nodes(cfg, n.id, [h.id]) and h.ast.type is not None:
                types = h.ast.type.elts if isinstance(h.ast.type, ast.Tuple) else [h.ast.type]
                quals = [p.resolve_expr(f.module, t, f) for t in types]
                if all(q and p.is_subclass(q, NOT_FOUND) is True for q in quals):
                    by_handler = True
        by_test = any(flow.dominated_by_edge(cfg, n.id, e) for e in nf_edges)
        run.check(by_handler or by_test, '%s: the default stands in only for MediaNotFoundError (empty body), never for another error' % tag, f,
                  n.ast, where=loc(n), runtime_witness='get_media(default_when_empty=x) on malformed JSON returns x instead of raising 400')
    return g


def r1_parse_once(run):
    p = run.project
    gw = _check_get_media(run, WSGI_GET)
    ga = _check_get_media(run, ASGI_GET)
    # sibling equality over the event alphabet
    dfas = []
    for g in (gw, ga):
        dfas.append(flow.determinise(g.project_split()))
    diff = flow.language_diff(dfas[0], dfas[1])
    for wd in flow.words(dfas[0], limit=4, maxlen=24):
        run.sample({'rule': 'R1', 'accepted_event_trace': wd})
    if diff is None:
        run.ok('WSGI and ASGI get_media are event-language-equal over {RESOLVE, DESER, SETVAL, SETERR, EXH+/-, EXHAUST, RAISE, RETDEF, RETVAL, X:<handler>}',
               '%s ~ %s' % (gw.f.loc(), ga.f.loc()))
    else:
        word, which = diff
        side = gw if which == 'left-only' else ga
        run.fail('event trace possible in %s get_media only: %s' % ('WSGI' if which == 'left-only' else 'ASGI', ' '.join(word)), side.f,
                 'event-language(%s) %s' % ('wsgi-only' if which == 'left-only' else 'asgi-only', ' '.join(word[-6:])),
                 witness=['trace: ' + ' '.join(word)], runtime_witness='the same request history gives different media caching on WSGI and ASGI')

    # ownership of the two cache attributes
    req_classes = {q for q in p.classes if p.is_subclass(q, 'falcon.request.Request') is True}
    n_w = 0
    for fn in p.all_functions():
        oc = func_owner_class(fn)
        for n in walk_self(fn.node):
            if not isinstance(n, ast.stmt):
                continue
            for attr in ('_media', '_media_error'):
                for t in _writes(n, attr):
                    recv = t.value
                    is_self = isinstance(recv, ast.Name) and recv.id == 'self'
                    if is_self and oc is not None and oc.qual in req_classes:
                        n_w += 1
                        run.check(fn.name in ('__init__', 'get_media') and fn.parent is None,
                                  'the request media cache is written only by get_media (and the constructor)', fn, n,
                                  runtime_witness='a later get_media() returns something that was never parsed from the body')
                    elif isinstance(recv, ast.Name) and recv.id in ('req', 'request'):
                        n_w += 1
                        run.fail('the request media cache is written only by get_media (and the constructor)', fn, n)
    if n_w < 4:
        raise AnchorError('writers of Request._media/_media_error not found (%d)' % n_w)


# ---------------------------------------------------------------------------
# R2 handler error mapping
# ---------------------------------------------------------------------------

class _MediaEscape(_Escape):
    """E5 where the configured `self._loads(...)` counts as a conversion
    primitive raising ValueError (json.loads and its documented replacements)."""

    def _call(self, n, func, selfcls, handlers, out):
        f = n.func
        if isinstance(f, ast.Attribute) and f.attr == '_loads' and isinstance(f.value, ast.Name) and f.value.id == 'self':
            self._prim(out, 'builtins.ValueError', func, n, handlers, 'configured JSON loads()')
            for a in n.args:
                self._expr(a, func, selfcls, handlers, out)
            return
        return super()._call(n, func, selfcls, handlers, out)


def r2_error_mapping(run):
    p = run.project
    # both are 400-class
    bad_req = p.cls('falcon.errors.HTTPBadRequest')
    init = p.lookup_method(bad_req.qual, '__init__')
    status = None
    if init is not None:
        for c in walk_self(init.node):
            if isinstance(c, ast.Call) and isinstance(c.func, ast.Attribute) and c.func.attr == '__init__' and c.args:
                status = p.fold(init.module, c.args[0], None, init)
    if not isinstance(status, str):
        raise UnknownIdiom('HTTPBadRequest: status does not fold')
    for q in (NOT_FOUND, MALFORMED):
        c = p.cls(q)
        run.check(p.is_subclass(q, bad_req.qual) is True and status.startswith('400'), '%s is a 400 Bad Request' % q.rsplit('.', 1)[1], q,
                  'class %s(%s) status %s' % (c.name, ', '.join(b.rsplit('.', 1)[-1] for b in c.bases), status), where=c.loc())
        own = c.methods.get('__init__')
        if own is not None:
            for cc in walk_self(own.node):
                if isinstance(cc, ast.Call) and isinstance(cc.func, ast.Attribute) and cc.func.attr == '__init__' and cc.args:
                    st = p.fold(own.module, cc.args[0], None, own)
                    if isinstance(st, str) and st[:3].isdigit():
                        run.check(st.startswith('400'), '%s does not override the 400 status' % c.name, own, cc)

    E = _MediaEscape(p)
    allowed = {
        'falcon.media.json.JSONHandler': {NOT_FOUND, MALFORMED},
        'falcon.media.urlencoded.URLEncodedFormHandler': {MALFORMED},
    }
    for cq, okset in sorted(allowed.items()):
        c = p.cls(cq)
        for name in ('_deserialize', 'deserialize', 'deserialize_async'):
            f = c.methods.get(name)
            if f is None:
                raise AnchorError('%s.%s not found' % (cq, name))
            run.use(f)
            summ = E.summary(f, selfcls=c)
            bad = {k: v for k, v in summ.items() if not any(p.is_subclass(k, a) is True for a in okset)}
            if not bad:
                run.ok('%s.%s lets only %s escape (E5: %s)' % (c.name, name, '/'.join(sorted(x.rsplit('.', 1)[1] for x in okset)),
                                                              sorted(x.rsplit('.', 1)[-1] for x in summ) or 'nothing'), f.loc())
            for k, chain in sorted(bad.items()):
                where, text = chain[-1]
                run.fail('%s.%s may raise %s for an undecodable body instead of a 400-class media error' % (c.name, name, k), f,
                         text.split('  [')[0], where=where, witness=_chain(chain), runtime_witness="body b'\\xff' or b'{' -> 500")
    run.extra['c12_escape'] = {'sites': E.sites_seen, 'calls_resolved': E.calls_resolved}

    # JSON: empty body -> MediaNotFoundError, before anything else
    f = p.func('falcon.media.json.JSONHandler._deserialize')
    cfg = cfg_of(f, p)
    run.use_cfg(cfg)
    params = [a.arg for a in f.node.args.args]
    if len(params) != 2:
        raise UnknownIdiom('%s takes %s' % (f.qual, params))
    data = params[1]

    def is_data(e):
        return isinstance(e, ast.Name) and e.id == data

    nf_raises = [n for n in cfg.live_nodes() if n.kind == 'stmt' and isinstance(n.ast, ast.Raise) and n.ast.exc is not None
                 and p.resolve_expr(f.module, n.ast.exc.func if isinstance(n.ast.exc, ast.Call) else n.ast.exc, f) == NOT_FOUND]
    loads = [n for n in cfg.live_nodes() if any(isinstance(c.func, ast.Attribute) and c.func.attr == '_loads' for c in n.calls())]
    if not loads:
        # the loader under a local alias / json.loads itself / inside a same-module helper handed the data (R3's reading)
        feed = _LoaderFeed(run, p.cls('falcon.media.json.JSONHandler'))
        feed.find_slots(p.func('falcon.media.json.JSONHandler.__init__'))
        feed.analyse(f, ((data, frozenset({_K_BYTES})),))
        with_sink = {q for (q, _) in feed.sinks}
        loads = [n for n in cfg.live_nodes() if any(
            (f.qual, id(c)) in feed.sinks or (isinstance(c.func, (ast.Name, ast.Attribute)) and isinstance(p.resolve_callable(f, c.func), Func)
                                              and p.resolve_callable(f, c.func).qual in with_sink - {f.qual}) for c in n.calls())]
    if not loads:
        raise AnchorError('%s: call of the configured loads() not found' % f.qual)
    # under the assumption "the body is empty (falsy)" the only way out is MediaNotFoundError
    feas = _feasible(cfg, lambda e: False if is_data(e) else None)

    def filt(a, b, l):
        if l == 'exc':  # only explicit raises leave exceptionally under the assumption
            na = cfg.node(a)
            return na.kind == 'stmt' and isinstance(na.ast, ast.Raise)
        return feas(a, b, l)

    path = flow.find_path(cfg, [cfg.entry], [cfg.exit, cfg.xexit] + [n.id for n in loads], avoid_nodes=[n.id for n in nf_raises],
                          edge_filter=filt)
    bad = ([cfg.node(x) for x in path if cfg.node(x).ast is not None and cfg.node(x).kind == 'stmt'] or [None])[-1] if path else None
    run.check(path is None, 'JSON: an empty body yields MediaNotFoundError (and is not handed to loads())', f,
              (bad.ast if bad is not None and bad.ast is not None else f.node.body[0]) if path else 'empty body -> MediaNotFoundError',
              where='%s:%s' % (f.file, bad.lineno) if bad is not None and bad.lineno else f.loc(),
              witness=flow.describe_path(cfg, path) if path else None,
              runtime_witness="get_media(default_when_empty=x) on an empty JSON body raises a malformed-media error instead of returning x")
    for n in nf_raises:
        verdict, tn = _guard_verdict(cfg, n.id, is_data, False)
        if verdict == 'unknown':
            raise UnknownIdiom('%s: test %s' % (f.qual, short(tn.ast, 60)))
        run.check(verdict == 'proved', 'JSON: MediaNotFoundError is raised only for an empty body', f, n.ast, where='%s:%s' % (f.file, n.lineno))
    # loads()/decode() failures become MediaMalformedError
    for n in loads:
        hs = [cfg.node(y) for (y, l) in cfg.succ[n.id] if l == 'exc' and cfg.node(y).kind == 'handler']
        catches = False
        for h in hs:
            types = [] if h.ast.type is None else (h.ast.type.elts if isinstance(h.ast.type, ast.Tuple) else [h.ast.type])
            quals = [p.resolve_expr(f.module, t, f) for t in types]
            if h.ast.type is None or any(q and p.is_subclass('builtins.ValueError', q) is True for q in quals):
                catches = True
                raises = [x for x in walk_self(ast.Module(body=h.ast.body, type_ignores=[])) if isinstance(x, ast.Raise) and x.exc is not None]
                ok = bool(raises) and all(p.resolve_expr(f.module, r.exc.func if isinstance(r.exc, ast.Call) else r.exc, f) == MALFORMED for r in raises)
                ok = ok and flow.find_path(cfg, [h.id], [cfg.exit], edge_filter=flow.no_exc) is None
                run.check(ok, 'JSON: a ValueError from decoding or parsing (UnicodeDecodeError, JSONDecodeError) is mapped to MediaMalformedError', f,
                          h.ast.body[0], where='%s:%s' % (f.file, h.lineno), runtime_witness="body b'{' -> something other than a 400 malformed-media error")
        if not catches:
            run.fail('JSON: a ValueError from decoding or parsing is mapped to MediaMalformedError (no except arm catches ValueError)', f, n.ast,
                     where='%s:%s' % (f.file, n.lineno), runtime_witness="body b'{' -> 500")


# ---------------------------------------------------------------------------
# R3 codec agreement
# ---------------------------------------------------------------------------

def _codec_calls(f: Func, attr: str) -> List[ast.Call]:
    return [c for c in walk_self(f.node) if isinstance(c, ast.Call) and isinstance(c.func, ast.Attribute) and c.func.attr == attr]


# R3 (second clause, added after seeded change s11-c12-1): what a JSON loader is called with.
#
# "any undecodable body yields a 400-class malformed-media error": the serializer writes strict UTF-8, so the reader must
# accept exactly the strict UTF-8 bodies.  `json.loads` (and its documented replacements) handed BYTES guess the encoding
# themselves (UTF-8/16/32 by the first bytes, BOM accepted, surrogatepass), so every call on the deserialisation path of
# JSONHandler whose callee is a loader - the configured slot(s), a local alias of one, `json.loads` under any import alias,
# `json.load`, `json.JSONDecoder().decode` - must receive TEXT: a value that went through `.decode(...)` / `str(b, enc)` /
# `codecs.decode(b, enc)` (the codec of that decode is then judged by the codec-agreement clause), on EVERY path.
# Decided by a forward may-dataflow of value kinds over the CFG of the entrances `_deserialize(data=BYTES)`,
# `deserialize(stream=STREAM)`, `deserialize_async(stream=STREAM)` and of every function bound to the `_deserialize_sync`
# shortcut slot, looked through same-module helpers (one summary per argument-kind context).

_K_BYTES, _K_STREAM, _K_LOADS, _K_TOP, _K_OTHER = 'bytes', 'stream', 'loads', 'top', 'other'
_BYTES_TYPES = {'builtins.bytes', 'builtins.bytearray', 'builtins.memoryview'}
_KEEP_KIND_METHODS = {'strip', 'lstrip', 'rstrip'}           # bytes -> bytes, text -> the same text


def _names_in_target(t) -> List[str]:
    return [x.id for x in ast.walk(t) if isinstance(x, ast.Name)]


class _LoaderFeed:
    def __init__(self, run, cls):
        self.run, self.p, self.cls = run, run.project, cls
        self.slots: Set[str] = set()
        self.sinks: Dict[Tuple[str, int], list] = {}        # (qual, id(call)) -> [func, call, kinds, what]
        self.decodes: Dict[int, tuple] = {}                 # id(call) -> (func, call, codec, errors)
        self.memo: Dict[tuple, frozenset] = {}
        self.active: Set[tuple] = set()

    # -- which attributes of self hold the loader
    def find_slots(self, init: Func):
        params = set(init.params())
        for n in walk_self(init.node):
            if not isinstance(n, (ast.Assign, ast.AnnAssign)) or n.value is None:
                continue
            tgts = n.targets if isinstance(n, ast.Assign) else [n.target]
            cands = [n.value]
            flat = []
            while cands:
                v = cands.pop()
                if isinstance(v, ast.BoolOp):
                    cands.extend(v.values)
                elif isinstance(v, ast.IfExp):
                    cands.extend([v.body, v.orelse])
                else:
                    flat.append(v)
            if any(isinstance(v, (ast.Name, ast.Attribute)) and self.p.resolve_callable(init, v) == 'json.loads' for v in flat) \
                    or any(isinstance(v, ast.Name) and v.id == 'loads' and v.id in params for v in flat):
                for t in tgts:
                    if isinstance(t, ast.Attribute) and isinstance(t.value, ast.Name) and t.value.id == 'self':
                        self.slots.add(t.attr)
        if not self.slots:
            raise AnchorError('%s: the attribute holding the configured loads() was not found' % init.qual)

    # -- one function under one context of parameter kinds
    def analyse(self, f: Func, ctx: tuple) -> frozenset:
        key = (f.qual, ctx)
        if key in self.memo:
            return self.memo[key]
        if key in self.active or len(self.active) > 6:
            return frozenset({_K_TOP})
        self.active.add(key)
        p = self.p
        cfg = cfg_of(f, p)
        self.run.use_cfg(cfg)

        def kinds_of(facts, name):
            return {k for (n, k) in facts if n == name}

        def loader_kind(e, facts) -> Optional[str]:
            """'loads' (takes the document) / 'load' (takes a file object) / None"""
            e = strip_await(e)
            if isinstance(e, ast.Attribute) and isinstance(e.value, ast.Name) and e.value.id == 'self' and e.attr in self.slots:
                return 'loads'
            if isinstance(e, ast.Name) and kinds_of(facts, e.id):
                return 'loads' if _K_LOADS in kinds_of(facts, e.id) else None
            if isinstance(e, (ast.Name, ast.Attribute)):
                r = p.resolve_callable(f, e)
                if r == 'json.loads':
                    return 'loads'
                if r == 'json.load':
                    return 'load'
                if isinstance(e, ast.Attribute) and e.attr in ('decode', 'raw_decode') and isinstance(e.value, ast.Call) \
                        and p.resolve_callable(f, e.value.func) == 'json.JSONDecoder':
                    return 'loads'
            return None

        def text_kind(call, codec_args, keywords):
            fake = ast.Call(func=call.func, args=list(codec_args), keywords=list(keywords))
            codec, errors = _codec_of(fake)
            self.decodes[id(call)] = (f, call, codec, errors)
            return ('text', id(call))

        def ev(e, facts) -> Set:
            e = strip_await(e)
            if e is None or isinstance(e, ast.Constant):
                return {_K_OTHER}
            if isinstance(e, ast.NamedExpr):
                return ev(e.value, facts)
            if isinstance(e, ast.IfExp):
                return ev(e.body, facts) | ev(e.orelse, facts)
            if isinstance(e, ast.BoolOp):
                out = set()
                for v in e.values:
                    out |= ev(v, facts)
                return out
            if loader_kind(e, facts) is not None and not isinstance(e, ast.Name):
                return {_K_LOADS}
            if isinstance(e, ast.Name):
                ks = kinds_of(facts, e.id)
                if ks:
                    return set(ks)
                return {_K_LOADS} if loader_kind(e, facts) else {_K_TOP}
            if isinstance(e, ast.Subscript):
                inner = ev(e.value, facts)
                if isinstance(e.slice, ast.Slice):
                    return inner
                return {_K_TOP} if inner - {_K_OTHER} else {_K_OTHER}
            if isinstance(e, ast.BinOp) and isinstance(e.op, ast.Add):
                l, r = ev(e.left, facts), ev(e.right, facts)
                if _K_BYTES in l or _K_BYTES in r:
                    return {_K_BYTES}
                return {_K_TOP}
            if isinstance(e, ast.Call):
                fn = e.func
                args = list(e.args)
                r = p.resolve_callable(f, fn) if isinstance(fn, (ast.Name, ast.Attribute)) else None
                if isinstance(fn, ast.Attribute) and fn.attr == 'decode' and r != 'codecs.decode' and loader_kind(fn, facts) is None:
                    return {text_kind(e, args, e.keywords)}
                if r == 'builtins.str' and args and (len(args) > 1 or any(k.arg in ('encoding', 'errors') for k in e.keywords)):
                    return {text_kind(e, args[1:], e.keywords)}
                if r == 'codecs.decode' and args:
                    return {text_kind(e, args[1:], e.keywords)}
                if r in _BYTES_TYPES and len(args) == 1 and not e.keywords:
                    inner = ev(args[0], facts)
                    return inner if inner <= {_K_BYTES} else ({_K_BYTES, _K_TOP} if _K_BYTES in inner else {_K_TOP})
                if r == 'io.BytesIO' and len(args) == 1:
                    return {_K_STREAM} if _K_BYTES in ev(args[0], facts) else {_K_TOP}
                if isinstance(fn, ast.Attribute):
                    recv = ev(fn.value, facts)
                    if fn.attr in ('read', 'readall', 'readline', 'read1', 'getvalue') and _K_STREAM in recv:
                        return {_K_BYTES}
                    if fn.attr == 'tobytes' and _K_BYTES in recv:
                        return {_K_BYTES}
                    if fn.attr in _KEEP_KIND_METHODS and recv and _K_TOP not in recv and _K_OTHER not in recv:
                        return recv
                    if fn.attr == 'join' and isinstance(fn.value, ast.Constant) and isinstance(fn.value.value, bytes):
                        return {_K_BYTES}
                if loader_kind(fn, facts) is not None:
                    return {_K_OTHER}               # the parsed document
                if isinstance(r, Func) and r.module is f.module and not r.is_property():
                    sub = self.bind(r, e, lambda a: frozenset(ev(a, facts)))
                    if sub is not None:
                        return set(self.analyse(r, sub))
                return {_K_TOP}
            if isinstance(e, ast.Attribute):
                return {_K_TOP}
            return {_K_TOP}

        def bind_names(facts, names, kinds):
            names = set(names)
            out = {(n, k) for (n, k) in facts if n not in names}
            for n in names:
                for k in kinds:
                    out.add((n, k))
            return frozenset(out)

        def isinstance_atom(e):
            return isinstance(e, ast.Call) and isinstance(e.func, ast.Name) and e.func.id == 'isinstance' and len(e.args) == 2 \
                and isinstance(e.args[0], ast.Name)

        def refine(test, truth, facts):
            """drop BYTES from a name on the branch where an isinstance test rules bytes-likes out"""
            found = []
            for a in ast.walk(test):
                if isinstance_atom(a):
                    found.append(a)
            for a in found:
                val = implied(test, truth, lambda x: x is a)
                if val is None:
                    continue
                ts = a.args[1].elts if isinstance(a.args[1], ast.Tuple) else [a.args[1]]
                quals = {p.resolve_expr(f.module, t, f) for t in ts}
                not_bytes = (val is True and quals and None not in quals and not (quals & _BYTES_TYPES) and quals <= {'builtins.str'}) \
                    or (val is False and 'builtins.bytes' in quals)
                name = a.args[0].id
                if not_bytes and (name, _K_BYTES) in facts:
                    rest = {(n, k) for (n, k) in facts if not (n == name and k == _K_BYTES)}
                    if not any(n == name for (n, k) in rest):
                        rest.add((name, _K_OTHER))
                    facts = frozenset(rest)
            return facts

        def transfer(node, facts, label):
            if label == 'exc':
                return facts
            out = facts
            if node.kind == 'test' and label in ('T', 'F'):
                out = refine(node.ast, label == 'T', out)
            for x in node.walk():
                if isinstance(x, ast.NamedExpr) and isinstance(x.target, ast.Name):
                    out = bind_names(out, [x.target.id], ev(x.value, facts))
            a = node.ast
            if node.kind == 'stmt':
                if isinstance(a, ast.Assign):
                    ks = ev(a.value, facts)
                    for t in a.targets:
                        if isinstance(t, ast.Name):
                            out = bind_names(out, [t.id], ks)
                        elif isinstance(t, (ast.Tuple, ast.List, ast.Starred)):
                            out = bind_names(out, _names_in_target(t), {_K_TOP})
                elif isinstance(a, ast.AnnAssign) and a.value is not None and isinstance(a.target, ast.Name):
                    out = bind_names(out, [a.target.id], ev(a.value, facts))
                elif isinstance(a, ast.AugAssign) and isinstance(a.target, ast.Name):
                    l, r = kinds_of(facts, a.target.id), ev(a.value, facts)
                    out = bind_names(out, [a.target.id], {_K_BYTES} if (_K_BYTES in l or _K_BYTES in r) and isinstance(a.op, ast.Add) else {_K_TOP})
                elif isinstance(a, ast.Delete):
                    out = bind_names(out, [t.id for t in a.targets if isinstance(t, ast.Name)], set())
                elif isinstance(a, (ast.Import, ast.ImportFrom)):
                    out = bind_names(out, [(al.asname or al.name).split('.')[0] for al in a.names], set())
            elif node.kind == 'iter' and label == 'next':
                it = ev(node.stmt.iter, facts)
                out = bind_names(out, _names_in_target(node.stmt.target),
                                 {_K_BYTES} if it == {_K_STREAM} and isinstance(node.stmt.target, ast.Name) else {_K_TOP})
            elif node.kind == 'with':
                for it in node.stmt.items:
                    if it.optional_vars is not None:
                        out = bind_names(out, _names_in_target(it.optional_vars), {_K_TOP})
            elif node.kind == 'handler' and a is not None and getattr(a, 'name', None):
                out = bind_names(out, [a.name], {_K_OTHER})
            return out

        init = frozenset((n, k) for (n, ks) in ctx for k in ks)
        IN = flow.forward(cfg, transfer, init, must=False)
        ret: Set = set()
        for n in cfg.live_nodes():
            facts = IN.get(n.id, frozenset())
            for c in n.calls():
                lk = loader_kind(c.func, facts)
                if lk is not None:
                    arg = c.args[0] if c.args else next((k.value for k in c.keywords if k.arg in ('s', 'fp')), None)
                    if arg is None or isinstance(arg, ast.Starred):
                        raise UnknownIdiom('%s: %s' % (f.qual, short(c, 60)))
                    ent = self.sinks.setdefault((f.qual, id(c)), [f, c, set(), lk])
                    ent[2] |= ev(arg, facts)
                    continue
                r = p.resolve_callable(f, c.func) if isinstance(c.func, (ast.Name, ast.Attribute)) else None
                if isinstance(r, Func) and r.module is f.module and not r.is_property():
                    sub = self.bind(r, c, lambda a, facts=facts: frozenset(ev(a, facts)))
                    if sub is not None:
                        self.analyse(r, sub)
            if n.kind == 'stmt' and isinstance(n.ast, ast.Return):
                ret |= ev(n.ast.value, facts)
        self.active.discard(key)
        self.memo[key] = frozenset(ret)
        return self.memo[key]

    def bind(self, callee: Func, call: ast.Call, kinds) -> Optional[tuple]:
        """the context of `callee` for this call: ((param, kinds), ...); None when the arguments cannot be matched"""
        params = callee.params()
        a = callee.node.args
        if a.vararg or a.kwarg or any(isinstance(x, ast.Starred) for x in call.args) or any(k.arg is None for k in call.keywords):
            return None
        is_method = callee.cls is not None and not any(d.endswith('staticmethod') for d in callee.decorators)
        bound_recv = is_method and isinstance(call.func, ast.Attribute)
        formal = params[1:] if bound_recv else params
        ctx = {}
        if len(call.args) > len(formal):
            return None
        for name, arg in zip(formal, call.args):
            ctx[name] = kinds(arg)
        for k in call.keywords:
            if k.arg not in formal:
                return None
            ctx[k.arg] = kinds(k.value)
        for name in formal:
            ctx.setdefault(name, frozenset({_K_OTHER}))
        return tuple(sorted(ctx.items()))


def _loader_feed(run, jc, d: Func):
    """obligations of the loader-argument clause; returns (n_violations, decode calls that reach a loader)"""
    p = run.project
    init = jc.methods.get('__init__')
    feed = _LoaderFeed(run, jc)
    feed.find_slots(init)
    entrances: List[Tuple[Func, tuple]] = []
    dp = d.params()
    if len(dp) != 2:
        raise UnknownIdiom('%s takes %s' % (d.qual, dp))
    entrances.append((d, ((dp[1], frozenset({_K_BYTES})),)))
    for name in ('deserialize', 'deserialize_async'):
        f = jc.methods.get(name)
        if f is None:
            raise AnchorError('%s.%s not found' % (jc.qual, name))
        fp = f.params()
        if len(fp) < 2:
            raise UnknownIdiom('%s takes %s' % (f.qual, fp))
        entrances.append((f, tuple(sorted([(fp[1], frozenset({_K_STREAM}))] + [(x, frozenset({_K_OTHER})) for x in fp[2:]]))))
    # whatever is bound to the sync shortcut slot is called with the body bytes (Request.get_media)
    n_bad = 0
    for mname, m in sorted(jc.methods.items()):
        for n in walk_self(m.node):
            if not isinstance(n, (ast.Assign, ast.AnnAssign)) or n.value is None:
                continue
            tgts = n.targets if isinstance(n, ast.Assign) else [n.target]
            if not any(_is_attr_of(t, 'self', '_deserialize_sync') for t in tgts):
                continue
            v = n.value
            if isinstance(v, ast.Constant) and v.value is None:
                continue
            if (isinstance(v, ast.Attribute) and isinstance(v.value, ast.Name) and v.value.id == 'self' and v.attr in feed.slots) \
                    or (isinstance(v, (ast.Name, ast.Attribute)) and p.resolve_callable(m, v) == 'json.loads'):
                n_bad += 1
                run.fail('JSON: the sync shortcut slot is bound to the loader itself, which then gets the raw body bytes', m, n,
                         where=m.loc(n), runtime_witness='a UTF-16 body is accepted with 200 (and an empty or malformed one is a 500)')
                continue
            t = p.resolve_callable(m, v) if isinstance(v, (ast.Name, ast.Attribute)) else None
            if not isinstance(t, Func):
                raise UnknownIdiom('%s: %s' % (m.qual, short(n, 80)))
            tp = t.params()
            if len(tp) < 2:
                raise UnknownIdiom('%s is bound to _deserialize_sync but takes %s' % (t.qual, tp))
            run.ok('%s: _deserialize_sync is bound to %s, analysed with the body bytes as its argument' % (m.qual, t.name), m.loc(n), n)
            ent = (t, tuple(sorted([(tp[1], frozenset({_K_BYTES}))] + [(x, frozenset({_K_OTHER})) for x in tp[2:]])))
            if ent not in entrances:
                entrances.append(ent)
    for f, ctx in entrances:
        run.use(f)
        feed.analyse(f, ctx)
    if not feed.sinks:
        raise AnchorError('%s: no call of a JSON loader on the deserialisation path' % jc.qual)
    reaching = []
    for (q, _), (f, c, kinds, lk) in sorted(feed.sinks.items(), key=lambda kv: (kv[0][0], getattr(kv[1][1], 'lineno', 0))):
        raw = kinds & {_K_BYTES, _K_STREAM}
        if raw:
            n_bad += 1
            run.fail('JSON bytes are passed to loads() undecoded: the library then guesses the encoding (UTF-16/32, BOM, surrogatepass) '
                     'instead of the strict UTF-8 the serializer writes', f, c, where=f.loc(c),
                     witness=['the argument of %s may be %s on a path from the body' % (short(c.func, 40), '/'.join(sorted(raw)))],
                     runtime_witness="a UTF-16 body is accepted with 200; b'[\"\\xed\\xa0\\x80\"]' deserializes to a lone surrogate and echoing it gives a 500")
            continue
        if lk == 'load' or _K_TOP in kinds or _K_LOADS in kinds:
            raise UnknownIdiom('%s: what %s is called with (expected text from a .decode() of the body)' % (f.qual, short(c, 60)))
        texts = [k for k in kinds if isinstance(k, tuple)]
        for k in texts:
            reaching.append(feed.decodes[k[1]])
        run.ok('%s: %s receives %s' % (f.qual, short(c.func, 40), 'decoded text on every path' if texts else 'no body data'), f.loc(c), c)
    return n_bad, reaching


def r3_codec_agreement(run):
    p = run.project
    jc = p.cls('falcon.media.json.JSONHandler')
    # default dumps: ensure_ascii
    init = jc.methods.get('__init__')
    if init is None:
        raise AnchorError('JSONHandler.__init__ not found')
    run.use(init)
    ensure_ascii = None
    for n in walk_self(init.node):
        if isinstance(n, (ast.Assign, ast.AnnAssign)) and any(_is_attr_of(t, 'self', '_dumps') for t in (n.targets if isinstance(n, ast.Assign) else [n.target])):
            v = n.value
            cands = v.values if isinstance(v, ast.BoolOp) and isinstance(v.op, ast.Or) else [v]
            dflt = cands[-1]
            if isinstance(dflt, ast.Call) and p.resolve_callable(init, dflt.func) == 'functools.partial' and dflt.args \
                    and p.resolve_callable(init, dflt.args[0]) == 'json.dumps':
                ensure_ascii = True
                for k in dflt.keywords:
                    if k.arg == 'ensure_ascii':
                        val = p.fold(init.module, k.value, None, init)
                        if not isinstance(val, bool):
                            raise UnknownIdiom('JSONHandler: ensure_ascii=%s' % short(k.value, 30))
                        ensure_ascii = val
            elif (isinstance(dflt, (ast.Name, ast.Attribute)) and p.resolve_callable(init, dflt) == 'json.dumps'):
                ensure_ascii = True
            else:
                raise UnknownIdiom('JSONHandler: default dumps %s' % short(dflt, 60))
    if ensure_ascii is None:
        raise AnchorError('JSONHandler: default dumps not found')

    enc = {}
    for name, f in sorted(jc.methods.items()):
        if name.startswith('_serialize') or name.startswith('serialize'):
            for c in _codec_calls(f, 'encode'):
                enc[(f, c)] = _codec_of(c)
    dec = {}
    d = jc.methods.get('_deserialize')
    if d is None:
        raise AnchorError('JSONHandler._deserialize not found')
    run.use(d)
    for c in _codec_calls(d, 'decode'):
        if p.resolve_callable(d, c.func) != 'codecs.decode':        # (read with its own argument positions by _loader_feed)
            dec[(d, c)] = _codec_of(c)
    # every loader call on the deserialisation path receives decoded text (on every path): json.loads(bytes)
    # sniffs UTF-8/16/32 (+BOM) and decodes with surrogatepass, so bodies that are not strict UTF-8 are accepted
    # (or blow up later) instead of yielding the 400-class malformed-media error
    n_raw, reaching = _loader_feed(run, jc, d)
    for (df, dc, codec, errors) in reaching:
        if not any(c is dc for (_, c) in dec):
            dec[(df, dc)] = (codec, errors)
    if not enc or (not dec and not n_raw):
        raise AnchorError('JSONHandler: encode()/decode() of the text form not found (%d/%d)' % (len(enc), len(dec)))
    for (f, c), (codec, errors) in sorted(enc.items(), key=lambda kv: kv[0][0].qual):
        run.use(f)
        if codec is None or errors is None:
            raise UnknownIdiom('%s: %s' % (f.qual, short(c, 60)))
        ok = codec == 'utf-8' or (ensure_ascii and codec in ('ascii', 'latin-1'))
        run.check(ok and errors == 'strict', 'JSON text is encoded with a codec that represents every character the default dumps() can emit '
                  '(ensure_ascii=%s -> %s)' % (ensure_ascii, 'UTF-8' if not ensure_ascii else 'any ASCII superset'), f, c,
                  runtime_witness="resp.media = {'k': '\\u00e9'} raises UnicodeEncodeError or is mangled")
    enc_codecs = {v[0] for v in enc.values()}
    for (f, c), (codec, errors) in dec.items():
        if codec is None or errors is None:
            raise UnknownIdiom('%s: %s' % (f.qual, short(c, 60)))
        ok = all(codec == e or (e == 'ascii' and codec in ('utf-8', 'latin-1')) for e in enc_codecs)
        run.check(ok and errors == 'strict', 'JSON bytes are decoded with the codec the serializer encodes with (%s)' % '/'.join(sorted(x or '?' for x in enc_codecs)),
                  f, c, runtime_witness="the serialized form of {'k': '\\u00e9'} does not deserialize to an equal document")
    run.check(len(enc_codecs) == 1, 'all JSON serializer variants (sync/async) use one codec', jc.qual, 'encode codecs %s' % sorted(x or '?' for x in enc_codecs),
              where=jc.loc())

    # URL-encoded
    uc = p.cls('falcon.media.urlencoded.URLEncodedFormHandler')
    ser = uc.methods.get('serialize')
    des = uc.methods.get('_deserialize')
    if ser is None or des is None:
        raise AnchorError('URLEncodedFormHandler.serialize/_deserialize not found')
    run.use(ser)
    run.use(des)
    ascii_like = ('ascii', 'utf-8', 'latin-1')
    encs = _codec_calls(ser, 'encode')
    ec = single(encs, 'encode() call', ser.qual)
    src = ec.func.value
    if not (isinstance(src, ast.Call) and p.resolve_callable(ser, src.func) == 'urllib.parse.urlencode'):
        raise UnknownIdiom('%s: encoded text %s is not urllib.parse.urlencode(...)' % (ser.qual, short(src, 60)))
    codec, errors = _codec_of(ec)
    run.check(codec in ascii_like and errors == 'strict', 'the URL-encoded text (pure ASCII) is encoded with an ASCII-compatible codec', ser, ec,
              runtime_witness='a form body the reader cannot decode')
    doseq = [k for k in src.keywords if k.arg == 'doseq']
    dv = p.fold(ser.module, doseq[0].value, None, ser) if doseq else False
    run.check(dv is True, 'sequence values are written as repeated parameters (doseq=True), mirroring how the reader collects lists', ser, src,
              runtime_witness="{'a': ['1', '2']} comes back as {'a': \"['1', '2']\"}")
    decs = _codec_calls(des, 'decode')
    dc = single(decs, 'decode() call', des.qual)
    dcodec, derrors = _codec_of(dc)
    run.check(dcodec in ascii_like and derrors == 'strict', 'the form body is decoded with an ASCII-compatible strict codec', des, dc,
              runtime_witness='a serialized form does not deserialize (or non-ASCII garbage is accepted silently)')
    # the decoded text is what is parsed, by the query-string parser
    parent = enclosing_map(des.node)
    st = dc
    while not isinstance(st, ast.stmt):
        st = parent[id(st)]
    tv = st.targets[0].id if isinstance(st, ast.Assign) and len(st.targets) == 1 and isinstance(st.targets[0], ast.Name) else None
    pq = [c for c in walk_self(des.node) if isinstance(c, ast.Call) and isinstance(p.resolve_callable(des, c.func), Func)
          and p.resolve_callable(des, c.func).name == 'parse_query_string']
    pc = single(pq, 'parse_query_string() call', des.qual)
    arg0 = pc.args[0] if pc.args else None
    run.check((tv is not None and isinstance(arg0, ast.Name) and arg0.id == tv) or arg0 is dc,
              'the decoded form text is parsed by parse_query_string (the inverse of urlencode)', des, pc)


# ---------------------------------------------------------------------------
# R4 response render cache
# ---------------------------------------------------------------------------

RENDER_SITES = ('falcon.response.Response.render_body', 'falcon.asgi.response.Response.render_body', 'falcon.asgi.app.App.__call__')


def _recv(e) -> Optional[str]:
    return e.value.id if isinstance(e, ast.Attribute) and isinstance(e.value, ast.Name) else None


def _resolve_roles(cfg):
    """the unpackings of `..._resolve(...)`: (node, handler local at position 0, serialize_sync local at position 1)"""
    roles = []
    for n in cfg.live_nodes():
        if n.kind == 'stmt' and isinstance(n.ast, ast.Assign) and len(n.ast.targets) == 1 and isinstance(n.ast.targets[0], ast.Tuple) \
                and len(n.ast.targets[0].elts) == 3:
            v = strip_await(n.ast.value)
            if isinstance(v, ast.Call) and isinstance(v.func, ast.Attribute) and v.func.attr == '_resolve':
                t = n.ast.targets[0].elts
                h = t[0].id if isinstance(t[0], ast.Name) else None
                s = t[1].id if isinstance(t[1], ast.Name) and t[1].id != '_' else None
                roles.append((n, h, s))
    return roles


def _is_ser_call(c, roles) -> bool:
    fn_ = c.func
    for (_n, h, s) in roles:
        if isinstance(fn_, ast.Attribute) and isinstance(fn_.value, ast.Name) and fn_.value.id == h and fn_.attr.startswith('serialize'):
            return True
        if s is not None and isinstance(fn_, ast.Name) and fn_.id == s:
            return True
    return False


def _unset_edges(p, f: Func, cfg, r: str):
    """branch edges of `f` on which `<r>._media_rendered` is known to be the unset sentinel"""
    writers = [n.id for n in cfg.live_nodes() if n.kind == 'stmt' and _writes(n.ast, '_media_rendered')]

    def is_cache(e, tid) -> bool:
        """`<r>._media_rendered`, or a local bound once to that read with no write of the cache between the binding and
        the test (the local then still is what the cache holds)"""
        if _is_attr_of(e, r, '_media_rendered'):
            return True
        if isinstance(e, ast.Name) and e.id not in f.params():
            binds = _assignments(f.node, e.id)
            if binds and all(v is not None and _is_attr_of(strip_await(v), r, '_media_rendered') for _st, v in binds):
                b_ids = [i for st, _v in binds for i in cfg.nodes_for(st)]
                for b in b_ids:
                    after = flow.reachable(cfg, [y for (y, l) in cfg.succ[b] if l != 'exc'], avoid_nodes=b_ids, edge_filter=flow.no_exc)
                    stale = [w for w in writers if w in after]
                    if stale and tid in flow.reachable(cfg, [y for w in stale for (y, l) in cfg.succ[w] if l != 'exc'], avoid_nodes=b_ids,
                                                       edge_filter=flow.no_exc):
                        raise UnknownIdiom('%s: %s is tested after the cache it was read from may have been written' % (f.qual, e.id))
                return True
        return False

    def cached(test, truth, tid):
        for a in [x for x in walk_self(test) if isinstance(x, ast.Compare) and len(x.ops) == 1 and isinstance(x.ops[0], (ast.Is, ast.IsNot))
                  and _is_unset(p, f, x.comparators[0]) and is_cache(x.left, tid)]:
            v = implied(test, truth, lambda e, a=a: e is a)
            if v is not None:
                return v if isinstance(a.ops[0], ast.IsNot) else (not v)
        return None

    out = []
    for t in cfg.live_nodes():
        if t.kind == 'test':
            for (y, l) in cfg.succ[t.id]:
                if l in ('T', 'F') and cached(t.ast, l == 'T', t.id) is False:
                    out.append((t.id, y, l))
    return out


class _RenderHelper:
    """Summary of a method of a Response class that a render site calls on `self` and that performs the "render the
    media" step (resolve the handler, serialize `self._media`) on the same object.  Two shapes are read:
      returns   every `return` of the helper hands back the rendition (the serialization call itself, or a local that is
                bound to renditions only and returned on every normal path from the serialization) and the helper does
                not touch the cache - the CALL in the render site then stands for the serialization call;
      stores    the helper writes `self._media_rendered` itself from the serialization (same clauses as at a render
                site, decided inside the helper) - the call statement stands for serialization + store.
    Anything else is an unknown idiom."""

    def __init__(self, run, p, g: Func):
        self.g = g
        a = g.node.args
        pos = a.posonlyargs + a.args
        if not pos or a.vararg or a.kwarg or len(pos) != 1 or a.kwonlyargs:
            raise UnknownIdiom('%s: a helper performing the media rendition that takes arguments' % g.qual)
        self.selfname = sn = pos[0].arg
        cfg = self.cfg = cfg_of(g, p)
        run.use_cfg(cfg)
        self.roles = _resolve_roles(cfg)
        self.sers = [n for n in cfg.live_nodes() if n.kind == 'stmt' and any(_is_ser_call(c, self.roles) for c in n.calls())
                     and any(isinstance(x, ast.Attribute) and x.attr == '_media' for x in n.walk())]
        self.kind = None
        if not self.sers:
            return
        kinds = set()
        self.rendition_returns: Set[int] = set()
        ser_stmts = {id(x.ast) for x in self.sers}
        for n in self.sers:
            tg = _writes(n.ast, '_media_rendered')
            if tg:
                if len(tg) != 1 or _recv(tg[0]) != sn:
                    raise UnknownIdiom('%s: store of the rendition %s' % (g.qual, short(n.ast, 80)))
                kinds.add('stores')
                continue
            if isinstance(n.ast, ast.Return) and n.ast.value is not None:
                v = strip_await(n.ast.value)
                if isinstance(v, ast.Call) and _is_ser_call(v, self.roles):
                    kinds.add('returns')
                    self.rendition_returns.add(id(n.ast))
                    continue
            if isinstance(n.ast, (ast.Assign, ast.AnnAssign)) and n.ast.value is not None:
                lt = n.ast.targets if isinstance(n.ast, ast.Assign) else [n.ast.target]
                v = strip_await(n.ast.value)
                if len(lt) == 1 and isinstance(lt[0], ast.Name) and lt[0].id != sn and isinstance(v, ast.Call) and _is_ser_call(v, self.roles):
                    L = lt[0].id
                    binds = _assignments(g.node, L)
                    rets = [x for x in cfg.live_nodes() if x.kind == 'stmt' and isinstance(x.ast, ast.Return) and isinstance(x.ast.value, ast.Name)
                            and x.ast.value.id == L]
                    succs0 = [y for (y, l) in cfg.succ[n.id] if l != 'exc']
                    if binds and all(id(st) in ser_stmts for st, _v in binds) and rets and \
                            flow.find_path(cfg, succs0, [cfg.exit], avoid_nodes=[x.id for x in rets], edge_filter=flow.no_exc) is None:
                        kinds.add('returns')
                        self.rendition_returns.update(id(x.ast) for x in rets)
                        continue
            raise UnknownIdiom('%s: what becomes of the rendition %s' % (g.qual, short(n.ast, 80)))
        if len(kinds) != 1:
            raise UnknownIdiom('%s: the renditions are partly returned, partly stored' % g.qual)
        self.kind = kinds.pop()
        # third shape: the helper stores the rendition AND hands back what the cache holds (`return self._media_rendered`,
        # or a local bound to that read only) on every normal path - its call is then a read of the cache
        self.returns_cache = False
        self.stale_local: Optional[str] = None
        if self.kind == 'stores':
            def reads_cache(e, depth=0):
                e = strip_await(e) if e is not None else None
                if _is_attr_of(e, sn, '_media_rendered'):
                    return True
                if isinstance(e, ast.Name) and depth < 3 and e.id not in g.params():
                    binds = _assignments(g.node, e.id)
                    if not (binds and all(v is not None and reads_cache(v, depth + 1) for _st, v in binds)):
                        return False
                    return True
                return False
            rets = [x for x in cfg.live_nodes() if x.kind == 'stmt' and isinstance(x.ast, ast.Return)]
            valued = [x for x in rets if x.ast.value is not None and not (isinstance(x.ast.value, ast.Constant) and x.ast.value.value is None)]
            if valued:
                if not all(reads_cache(x.ast.value) for x in valued):
                    bad = [x for x in valued if not reads_cache(x.ast.value)][0]
                    raise UnknownIdiom('%s: stores the rendition and returns something else: %s' % (g.qual, short(bad.ast, 60)))
                # a returned local is what the cache holds only when it was read AFTER the store: binding -> store ->
                # return with no re-binding in between hands back the value from before (the unset sentinel)
                for x in valued:
                    v = strip_await(x.ast.value)
                    if not isinstance(v, ast.Name):
                        continue
                    binds = _assignments(g.node, v.id)
                    if any(isinstance(bv, ast.Name) for _st, bv in binds):
                        raise UnknownIdiom('%s: %s is an alias of an alias of the cache' % (g.qual, v.id))
                    b_ids = [i for st, _v in binds for i in cfg.nodes_for(st)]
                    for b in b_ids:
                        succ_b = [y for (y, l) in cfg.succ[b] if l != 'exc']
                        after_b = flow.reachable(cfg, succ_b, avoid_nodes=b_ids, edge_filter=flow.no_exc)
                        for m in self.sers:
                            if m.id in after_b and x.id in flow.reachable(cfg, [y for (y, l) in cfg.succ[m.id] if l != 'exc'],
                                                                          avoid_nodes=b_ids, edge_filter=flow.no_exc):
                                self.stale_local = v.id
                self.returns_cache = flow.find_path(cfg, [cfg.entry], [cfg.exit], avoid_nodes=[x.id for x in valued],
                                                    edge_filter=flow.no_exc) is None
                if not self.returns_cache:
                    raise UnknownIdiom('%s: returns the cached rendition on some normal paths only' % g.qual)
        if self.kind == 'returns':
            for x in cfg.live_nodes():
                if x.kind == 'stmt' and isinstance(x.ast, ast.Return) and id(x.ast) not in self.rendition_returns:
                    raise UnknownIdiom('%s: `%s` does not return the rendition' % (g.qual, short(x.ast, 60)))
            if flow.find_path(cfg, [cfg.entry], [cfg.exit], avoid_nodes=[x.id for x in cfg.live_nodes() if x.kind == 'stmt'
                                                                             and id(x.ast) in self.rendition_returns],
                              edge_filter=flow.no_exc) is not None:
                raise UnknownIdiom('%s: a normal path leaves the helper without returning a rendition' % g.qual)
            for fn_n in walk_self(g.node):
                if isinstance(fn_n, ast.stmt) and _writes(fn_n, '_media_rendered'):
                    raise UnknownIdiom('%s: returns the rendition and also writes the cache' % g.qual)


def r4_render_cache(run):
    p = run.project
    resp_classes = {q for q in p.classes if p.is_subclass(q, 'falcon.response.Response') is True}
    # (0) assigning response media always invalidates the rendered body: the
    # setter reaches the cache reset on EVERY normal path (an identity/equality
    # shortcut is wrong -- the same object may have been edited in place since
    # it was rendered)
    setter = p.funcs.get('falcon.response.Response.media.setter')
    if setter is None:
        raise AnchorError('Response.media setter not found')
    scfg = cfg_of(setter, p)
    run.use_cfg(scfg)
    s_resets = [n.id for n in scfg.live_nodes() if n.kind == 'stmt' and any(_recv(t) == 'self' for t in _writes(n.ast, '_media_rendered'))
                and _is_unset(p, setter, getattr(n.ast, 'value', None))]
    s_writes = [n.id for n in scfg.live_nodes() if n.kind == 'stmt' and any(_recv(t) == 'self' for t in _writes(n.ast, '_media'))]
    for what, nodes in (('resets the rendered-media cache', s_resets), ('stores the new media', s_writes)):
        path = flow.find_path(scfg, [scfg.entry], [scfg.exit], avoid_nodes=nodes, edge_filter=flow.no_exc) if nodes else [scfg.entry]
        run.check(path is None, 'every normal path through the Response.media setter %s' % what, setter,
                  'media setter: %s on all paths' % what, where=setter.loc(),
                  witness=flow.describe_path(scfg, path) if path and nodes else None,
                  runtime_witness='resp.media = doc; resp.render_body(); doc[\'k\'] = 2; resp.media = doc -> the stale body is sent')
    # (a) every writer of Response._media resets _media_rendered
    n_w = 0
    for fn in p.all_functions():
        oc = func_owner_class(fn)
        sites = []
        for n in walk_self(fn.node):
            if isinstance(n, ast.stmt):
                for t in _writes(n, '_media'):
                    r = _recv(t)
                    if (r == 'self' and oc is not None and oc.qual in resp_classes) or r in ('resp', 'response'):
                        sites.append((n, r))
        if not sites:
            continue
        cfg = cfg_of(fn, p)
        run.use_cfg(cfg)
        for stmt, r in sites:
            n_w += 1
            resets = [n.id for n in cfg.live_nodes() if n.kind == 'stmt' and any(_recv(t) == r for t in _writes(n.ast, '_media_rendered'))
                      and _is_unset(p, fn, getattr(n.ast, 'value', None))]
            ok = True
            wpath = None
            for nid in cfg.nodes_for(stmt):
                succs = [y for (y, l) in cfg.succ[nid] if l != 'exc']
                path = flow.find_path(cfg, succs, [cfg.exit], avoid_nodes=resets, edge_filter=flow.no_exc)
                if path is not None and not flow.dominated_by_nodes(cfg, nid, resets):
                    ok = False
                    wpath = path
            run.check(ok, 'a writer of the response media also resets the rendered-media cache', fn, stmt,
                      witness=flow.describe_path(cfg, wpath) if wpath else None,
                      runtime_witness='resp.media = a; resp.render_body(); resp.media = b; resp.render_body() still returns the bytes of a')
    if n_w < 2:
        raise AnchorError('writers of Response._media not found (%d)' % n_w)

    # (b) the three render sites render only when the cache is unset, into the cache, and answer from it
    helper_sites: Set[str] = set()
    for qual in RENDER_SITES:
        f = p.func(qual)
        cfg = cfg_of(f, p)
        run.use_cfg(cfg)
        tag = qual.split('.', 1)[1]
        # the unpacking of ..._resolve(...): handler at 0, serialize_sync at 1
        roles = _resolve_roles(cfg)
        # the "render the media" step may live in a method of the same class called on `self` (the same response object):
        # its summary is inlined
        helpers: Dict[int, _RenderHelper] = {}
        a0 = f.node.args.posonlyargs + f.node.args.args
        selfname = a0[0].arg if a0 and func_owner_class(f) is not None and func_owner_class(f).qual in resp_classes else None
        if selfname is not None:
            for n in cfg.live_nodes():
                for c in (n.calls() if n.kind == 'stmt' else []):
                    if isinstance(c.func, ast.Attribute) and isinstance(c.func.value, ast.Name) and c.func.value.id == selfname:
                        g = p.callee(f, c)
                        if isinstance(g, Func) and g is not f and func_owner_class(g) is not None and func_owner_class(g).qual in resp_classes \
                                and not g.is_property():
                            if any(isinstance(x, ast.Attribute) and x.attr == '_resolve' for x in walk_self(g.node)):
                                h = _RenderHelper(run, p, g)
                                if h.kind is not None:
                                    if c.args or c.keywords:
                                        raise UnknownIdiom('%s: arguments of %s' % (qual, short(c, 60)))
                                    helpers[id(c)] = h

        def is_ser(c, roles=roles, helpers=helpers):
            return id(c) in helpers or _is_ser_call(c, roles)

        def helper_of(n, helpers=helpers):
            hs = [helpers[id(c)] for c in n.calls() if id(c) in helpers]
            return hs[0] if hs else None

        sers = [n for n in cfg.live_nodes() if n.kind == 'stmt' and any(is_ser(c) for c in n.calls())]
        sers = [n for n in sers if helper_of(n) is not None or any(isinstance(x, ast.Attribute) and x.attr == '_media' for x in n.walk())]
        if not sers:
            raise AnchorError('%s: serialization of the response media not found' % qual)
        for n in sers:
            where = '%s:%s' % (f.file, n.lineno)
            hlp = helper_of(n)
            if hlp is not None:
                if len([c for c in n.calls() if is_ser(c)]) != 1:
                    raise UnknownIdiom('%s: %s' % (qual, short(n.ast, 80)))
                helper_sites.add(hlp.g.qual)
                # what the helper serializes is the media of `self`, the object it was called on
                for m in hlp.sers:
                    hargs = [a for c in m.calls() if _is_ser_call(c, hlp.roles) for a in c.args]
                    run.check(any(_is_attr_of(a, hlp.selfname, '_media') for a in hargs),
                              '%s (through %s): what is serialized is the media of the same response' % (tag, hlp.g.name), hlp.g, m.ast,
                              where=hlp.g.loc(m.ast))
            if hlp is not None and hlp.kind == 'stores':
                # the helper stores the rendition itself: the call statement stands for serialization + store
                r = selfname
                run.ok('%s: the serialized media is stored in the rendered-media cache (by %s, called on the same object)' % (tag, hlp.g.name),
                       where, n.ast)
                h_edges = _unset_edges(p, hlp.g, hlp.cfg, hlp.selfname)
                in_helper = all(any(flow.dominated_by_edge(hlp.cfg, m.id, e) for e in h_edges) for m in hlp.sers)
                in_caller = any(flow.dominated_by_edge(cfg, n.id, e) for e in _unset_edges(p, f, cfg, r))
                run.check(in_helper or in_caller, '%s: the media is serialized only when the rendered-media cache is unset' % tag, f, n.ast,
                          where=where, runtime_witness='render_body() twice calls the handler twice')
                via_local = None
            else:
                tg = _writes(n.ast, '_media_rendered')
                via_local = None     # the rendition is first held in a local that only renditions are assigned to, then stored once
                if not tg and isinstance(n.ast, (ast.Assign, ast.AnnAssign)) and n.ast.value is not None:
                    lt = n.ast.targets if isinstance(n.ast, ast.Assign) else [n.ast.target]
                    if len(lt) == 1 and isinstance(lt[0], ast.Name) and lt[0].id not in f.params():
                        L = lt[0].id
                        binds = _assignments(f.node, L)
                        ser_stmts = {id(x.ast) for x in sers}
                        only_renditions = bool(binds) and all(id(st) in ser_stmts for st, _v in binds)
                        stores = [x for x in cfg.live_nodes() if x.kind == 'stmt' and isinstance(x.ast, ast.Assign) and _writes(x.ast, '_media_rendered')
                                  and isinstance(x.ast.value, ast.Name) and x.ast.value.id == L]
                        recvs = {_recv(t) for x in stores for t in _writes(x.ast, '_media_rendered')}
                        if only_renditions and stores and len(recvs) == 1 and None not in recvs:
                            succs0 = [y for (y, l) in cfg.succ[n.id] if l != 'exc']
                            skip = flow.find_path(cfg, succs0, [cfg.exit], avoid_nodes=[x.id for x in stores], edge_filter=flow.no_exc)
                            if skip is None:
                                via_local = (L, next(iter(recvs)), stores)
                if via_local is None:
                    if not run.check(len(tg) == 1 and _recv(tg[0]) is not None, '%s: the serialized media is stored in the rendered-media cache' % tag, f, n.ast,
                                     where=where, runtime_witness='every render_body() serializes again (and may differ)'):
                        continue
                    r = _recv(tg[0])
                else:
                    run.ok('%s: the serialized media is stored in the rendered-media cache (through the local %s, on every normal path '
                           'from the serialization)' % (tag, via_local[0]), where, n.ast)
                    r = via_local[1]
                if hlp is not None and r != selfname:
                    raise UnknownIdiom('%s: the rendition of %s is stored on another object (%s)' % (qual, selfname, short(n.ast, 80)))

                unset_edges = _unset_edges(p, f, cfg, r)
                run.check(any(flow.dominated_by_edge(cfg, n.id, e) for e in unset_edges),
                          '%s: the media is serialized only when the rendered-media cache is unset' % tag, f, n.ast, where=where,
                          runtime_witness='render_body() twice calls the handler twice')
                if hlp is None:
                    # the serialized object is this response's media
                    args = [a for c in n.calls() if is_ser(c) for a in c.args]
                    run.check(any(_is_attr_of(a, r, '_media') for a in args), '%s: what is serialized is the media of the same response' % tag, f, n.ast, where=where)
            # and the answer is read back from the cache
            readers = [x.id for x in cfg.live_nodes() if x.id != n.id and x.kind == 'stmt' and isinstance(x.ast, (ast.Assign, ast.AnnAssign, ast.Return))
                       and _is_attr_of(getattr(x.ast, 'value', None), r, '_media_rendered')]
            if via_local is not None:
                # the local holds what was just stored in the cache: answering from it is answering from the cache
                store_ids = {x.id for x in via_local[2]}
                readers += [x.id for x in cfg.live_nodes() if x.id != n.id and x.id not in store_ids and x.kind == 'stmt'
                            and isinstance(x.ast, (ast.Assign, ast.AnnAssign, ast.Return))
                            and isinstance(getattr(x.ast, 'value', None), ast.Name) and x.ast.value.id == via_local[0]]
            if hlp is not None and hlp.kind == 'stores' and hlp.returns_cache:
                # the helper hands back what the cache holds: a statement that takes the value of the call reads the cache
                hcall = [c for c in n.calls() if id(c) in helpers][0]
                if isinstance(n.ast, (ast.Assign, ast.AnnAssign, ast.Return)) and strip_await(getattr(n.ast, 'value', None)) is hcall:
                    if hlp.stale_local is not None:
                        run.fail('%s: the body is taken from the rendered-media cache' % tag, f, n.ast, where=where,
                                 witness=['%s returns the local %s, read from the cache BEFORE the rendition is stored: on the rendering '
                                          'path it still is the unset sentinel' % (hlp.g.qual, hlp.stale_local)],
                                 runtime_witness='the first render_body() of a media response answers the _UNSET sentinel instead of the bytes')
                        continue
                    run.ok('%s: the body is taken from the rendered-media cache (%s returns the cache it has just filled)' % (tag, hlp.g.name),
                           where, n.ast)
                    continue
                if not isinstance(n.ast, ast.Expr):
                    raise UnknownIdiom('%s: use of the value of %s' % (qual, short(n.ast, 80)))
            elif hlp is not None and hlp.kind == 'stores' and not isinstance(n.ast, ast.Expr):
                raise UnknownIdiom('%s: %s stores the rendition and returns nothing, yet its value is used: %s' % (qual, hlp.g.name, short(n.ast, 80)))
            succs = [y for (y, l) in cfg.succ[n.id] if l != 'exc']
            path = flow.find_path(cfg, succs, [cfg.exit], avoid_nodes=readers, edge_filter=flow.no_exc)
            run.check(path is None, '%s: the body is taken from the rendered-media cache' % tag, f, n.ast, where=where,
                      witness=flow.describe_path(cfg, path) if path else None)
    # (c) nobody else writes the cache
    for fn in p.all_functions():
        for n in walk_self(fn.node):
            if isinstance(n, ast.stmt) and _writes(n, '_media_rendered'):
                v = getattr(n, 'value', None)
                is_reset = _is_unset(p, fn, v)
                is_render = (fn.qual in RENDER_SITES or fn.qual in helper_sites) and v is not None
                run.check(is_reset or is_render, 'the rendered-media cache is written only by a reset to unset or by a render site', fn, n)


# ---------------------------------------------------------------------------
# R6 the form serializer's quoting function escapes '%' (and the form delimiters) unconditionally
# ---------------------------------------------------------------------------
# parse_query_string percent-decodes every name and value, so the writer must
# be injective on text: a literal '%' has to leave as '%25' whatever follows
# it.  urllib's quote/quote_plus do that; so do falcon's plain value encoders.
# The `*_check_escaped` encoders do not: text that merely LOOKS escaped
# ('%41%42') is passed through and reads back as something else ('AB').

URI_MOD = 'falcon.util.uri'
ENCODER_FACTORY = URI_MOD + '._create_str_encoder'
_URLLIB_QUOTERS = {'urllib.parse.quote_plus': '+', 'urllib.parse.quote': '/', 'urllib.parse.quote_from_bytes': '/'}
_FORM_SPECIAL = '%&=+'


def _encoder_table(p) -> Dict[str, Dict[str, bool]]:
    """falcon.util.uri.<name> -> {'is_value': bool, 'check_is_escaped': bool}, read off the factory calls."""
    fac = p.func(ENCODER_FACTORY)
    a = fac.node.args
    pos = a.posonlyargs + a.args
    names = [x.arg for x in pos]
    if 'check_is_escaped' not in names or 'is_value' not in names:
        raise AnchorError('%s: parameters is_value/check_is_escaped not found (%s)' % (ENCODER_FACTORY, names))
    m = p.module(URI_MOD)
    dflt = {}
    for arg, d in zip(pos[len(pos) - len(a.defaults):], a.defaults):
        dflt[arg.arg] = p.fold(m, d)
    # the heuristic is what the flag switches on: a branch under the flag that returns the input unchanged
    enc = fac.nested.get('encoder')
    inner = enc.node if enc is not None else fac.node
    passthrough = False
    for n in ast.walk(inner):
        if isinstance(n, ast.If) and any(isinstance(x, ast.Name) and x.id == 'check_is_escaped' for x in ast.walk(n.test)):
            iparams = [x.arg for x in inner.args.args] if inner is not fac.node else []
            if any(isinstance(r, ast.Return) and isinstance(r.value, ast.Name) and r.value.id in iparams for r in ast.walk(n)):
                passthrough = True
    if not passthrough:
        raise UnknownIdiom('%s: the check_is_escaped flag no longer guards a pass-through return of the input' % ENCODER_FACTORY)
    table = {}
    for name, v in sorted(m.consts.items()):
        if isinstance(v, ast.Call) and isinstance(v.func, (ast.Name, ast.Attribute)):
            t = p.resolve_expr(m, v.func)
            if t != ENCODER_FACTORY:
                continue
            bound = dict(dflt)
            if len(v.args) > len(names) or any(isinstance(x, ast.Starred) for x in v.args) or any(k.arg is None for k in v.keywords):
                raise UnknownIdiom('%s = %s' % (name, short(v, 60)))
            for nm, x in zip(names, v.args):
                bound[nm] = p.fold(m, x)
            for k in v.keywords:
                bound[k.arg] = p.fold(m, k.value)
            if not all(isinstance(bound.get(k), bool) for k in ('is_value', 'check_is_escaped')):
                raise UnknownIdiom('%s = %s: factory arguments do not fold to booleans' % (name, short(v, 60)))
            table[URI_MOD + '.' + name] = {'is_value': bound['is_value'], 'check_is_escaped': bound['check_is_escaped']}
    if not any(t['check_is_escaped'] for t in table.values()) or not any(not t['check_is_escaped'] for t in table.values()):
        raise AnchorError('%s: expected plain and check_is_escaped encoders among the factory products, found %s' % (URI_MOD, sorted(table)))
    return table


# (added after seeded change s7-c12-1) WHICH characters are special to the reader depends on the handler's configuration:
# `URLEncodedFormHandler(csv=True)` makes the same handler's deserializer split values on ','.  A `safe` argument is
# therefore judged once per CONFIGURATION - every assignment of True / False to the constructor's boolean options it (or the
# reader's `csv` argument) reads through `self.<attr>` -: a conditional `safe=',' if self._csv else ''` is evaluated for each
# of them, and a character that the SAME configuration's reader treats as a delimiter ('%', '&', '=', '+' always, ',' when
# the `csv` argument of parse_query_string() is true under it) must not be declared safe.

PARSE_QS = URI_MOD + '.parse_query_string'
_CSV_DELIM = ','


class _NotEvaluable(Exception):
    pass


def _option_attrs(p, c) -> Dict[str, str]:
    """self.<attr> -> constructor option (a parameter with a boolean default stored as it is / through bool())"""
    init = c.methods.get('__init__')
    if init is None:
        return {}
    a = init.node.args
    pos = a.posonlyargs + a.args
    opts = set()
    for arg, d in list(zip(pos[len(pos) - len(a.defaults):], a.defaults)) + [(x, d) for x, d in zip(a.kwonlyargs, a.kw_defaults) if d is not None]:
        if isinstance(d, ast.Constant) and isinstance(d.value, bool):
            opts.add(arg.arg)
    out: Dict[str, str] = {}
    clash = set()
    for n in walk_self(init.node):
        if isinstance(n, (ast.Assign, ast.AnnAssign)):
            tgts = n.targets if isinstance(n, ast.Assign) else [n.target]
            v = n.value
            if isinstance(v, ast.Call) and isinstance(v.func, ast.Name) and v.func.id == 'bool' and len(v.args) == 1 and not v.keywords:
                v = v.args[0]
            for t in tgts:
                if isinstance(t, ast.Attribute) and isinstance(t.value, ast.Name) and t.value.id == 'self':
                    if isinstance(v, ast.Name) and v.id in opts and t.attr not in out:
                        out[t.attr] = v.id
                    else:
                        clash.add(t.attr)
    # an attribute any OTHER method writes is not a constructor option any more
    for m in c.methods.values():
        if m is init:
            continue
        for n in walk_self(m.node):
            if isinstance(n, ast.Attribute) and isinstance(n.ctx, (ast.Store, ast.Del)) and isinstance(n.value, ast.Name) and n.value.id == 'self':
                clash.add(n.attr)
    return {k: v for k, v in out.items() if k not in clash}


def _config_eval(p, f: Func, e, env: Dict[str, bool]):
    """value of `e` (text / bool) under one configuration `env` (self.<attr> -> bool)"""
    if isinstance(e, ast.Attribute) and isinstance(e.value, ast.Name) and e.value.id == 'self':
        if e.attr in env:
            return env[e.attr]
        raise _NotEvaluable(short(e, 40))
    if isinstance(e, ast.Constant):
        return e.value
    if isinstance(e, ast.IfExp):
        return _config_eval(p, f, e.body if _config_eval(p, f, e.test, env) else e.orelse, env)
    if isinstance(e, ast.BoolOp):
        v = None
        for x in e.values:
            v = _config_eval(p, f, x, env)
            if (isinstance(e.op, ast.Or) and v) or (isinstance(e.op, ast.And) and not v):
                return v
        return v
    if isinstance(e, ast.UnaryOp) and isinstance(e.op, ast.Not):
        return not _config_eval(p, f, e.operand, env)
    if isinstance(e, ast.Compare) and len(e.ops) == 1 and isinstance(e.ops[0], (ast.Is, ast.IsNot, ast.Eq, ast.NotEq)):
        l, r = _config_eval(p, f, e.left, env), _config_eval(p, f, e.comparators[0], env)
        if not all(isinstance(x, bool) or x is None for x in (l, r)) and isinstance(e.ops[0], (ast.Is, ast.IsNot)):
            raise _NotEvaluable(short(e, 40))
        same = l == r and type(l) is type(r)
        return same if isinstance(e.ops[0], (ast.Is, ast.Eq)) else not same
    if isinstance(e, ast.BinOp) and isinstance(e.op, ast.Add):
        l, r = _config_eval(p, f, e.left, env), _config_eval(p, f, e.right, env)
        if type(l) is type(r) and isinstance(l, (str, bytes)):
            return l + r
        raise _NotEvaluable(short(e, 40))
    if isinstance(e, ast.BinOp) and isinstance(e.op, ast.Mult):
        l, r = _config_eval(p, f, e.left, env), _config_eval(p, f, e.right, env)
        if isinstance(l, (str, bytes)) and isinstance(r, (bool, int)):
            return l * int(r)
        if isinstance(r, (str, bytes)) and isinstance(l, (bool, int)):
            return r * int(l)
        raise _NotEvaluable(short(e, 40))
    if isinstance(e, ast.Call) and isinstance(e.func, ast.Name) and e.func.id == 'bool' and len(e.args) == 1 and not e.keywords:
        return bool(_config_eval(p, f, e.args[0], env))
    if isinstance(e, ast.Subscript) and isinstance(e.value, (ast.Tuple, ast.List)) and not isinstance(e.slice, ast.Slice):
        i = _config_eval(p, f, e.slice, env)                    # ('', ',')[self._csv]
        if isinstance(i, (bool, int)) and -len(e.value.elts) <= int(i) < len(e.value.elts):
            return _config_eval(p, f, e.value.elts[int(i)], env)
        raise _NotEvaluable(short(e, 40))
    if isinstance(e, ast.Name):
        binds = [b for b in _assignments(f.node, e.id)]
        if len(binds) == 1 and binds[0][1] is not None and e.id not in f.params():
            return _config_eval(p, f, binds[0][1], env)
    v = p.fold(f.module, e, None, f)
    if v is UNKNOWN:
        raise _NotEvaluable(short(e, 40))
    return v


def _self_attrs_read(f: Func, e, depth=0) -> Set[str]:
    out = set()
    for x in ast.walk(e):
        if isinstance(x, ast.Attribute) and isinstance(x.value, ast.Name) and x.value.id == 'self' and isinstance(x.ctx, ast.Load):
            out.add(x.attr)
        elif isinstance(x, ast.Name) and depth < 3 and x.id not in f.params():
            binds = _assignments(f.node, x.id)
            if len(binds) == 1 and binds[0][1] is not None:
                out |= _self_attrs_read(f, binds[0][1], depth + 1)
    return out


def _reader_csv_arg(p, c):
    """(method, call, expression | None) of the class's parse_query_string(...) call: the `csv` argument decides whether ','
    splits values"""
    target = p.func(PARSE_QS)
    names = [x.arg for x in target.node.args.posonlyargs + target.node.args.args]
    if 'csv' not in names:
        raise AnchorError('%s has no csv parameter (%s)' % (PARSE_QS, names))
    found = []
    for m in c.methods.values():
        for n in walk_self(m.node):
            if isinstance(n, ast.Call) and isinstance(n.func, (ast.Name, ast.Attribute)):
                t = p.resolve_callable(m, n.func)
                if isinstance(t, Func) and t.qual == PARSE_QS:
                    found.append((m, n))
    m, call = single(found, 'parse_query_string(...) call of the form reader', c.qual)
    if any(isinstance(a, ast.Starred) for a in call.args) or any(k.arg is None for k in call.keywords):
        raise UnknownIdiom('%s: %s' % (m.qual, short(call, 80)))
    given = dict(zip(names, call.args))
    given.update({k.arg: k.value for k in call.keywords})
    if 'csv' in given:
        return m, call, given['csv']
    a = target.node.args
    pos = a.posonlyargs + a.args
    dflt = dict(zip([x.arg for x in pos[len(pos) - len(a.defaults):]], a.defaults))
    d = dflt.get('csv')
    if not (isinstance(d, ast.Constant) and isinstance(d.value, bool)):
        raise UnknownIdiom('%s: default of csv is %s' % (PARSE_QS, short(d, 40) if d is not None else 'missing'))
    return m, call, d


def r6_form_quoting(run):
    p = run.project
    table = _encoder_table(p)
    run.ok('encoder table read off the _create_str_encoder(...) calls: heuristic (pass text that looks escaped through) = %s; plain = %s' % (
        sorted(k.rsplit('.', 1)[1] for k, t in table.items() if t['check_is_escaped']),
        sorted(k.rsplit('.', 1)[1] for k, t in table.items() if not t['check_is_escaped'])), p.module(URI_MOD).name, 'encoder table')
    uc = p.cls('falcon.media.urlencoded.URLEncodedFormHandler')
    ser = uc.methods.get('serialize')
    if ser is None:
        raise AnchorError('URLEncodedFormHandler.serialize not found')
    run.use(ser)
    RW = "resp.media = {'pattern': '%41%42'} is written as b'pattern=%41%42' and reads back as {'pattern': 'AB'}"

    def qual_of(f: Func, e):
        """Func | qualified str | None for a callable expression"""
        if isinstance(e, (ast.Name, ast.Attribute)):
            return p.resolve_callable(f, e)
        return None

    def verdict_encoder(q: str):
        """True ok / (False, why) / None not an encoder we know"""
        if q in _URLLIB_QUOTERS:
            return True
        t = table.get(q)
        if t is None:
            return None
        if t['check_is_escaped']:
            return (False, "%s leaves text that looks percent-encoded unescaped ('%%' is not always written as %%25)" % q.rsplit('.', 1)[1])
        if not t['is_value']:
            return (False, '%s leaves the form delimiters & = + unescaped' % q.rsplit('.', 1)[1])
        return True

    options = _option_attrs(p, uc)
    rd, rd_call, csv_arg = _reader_csv_arg(p, uc)
    run.use(rd)
    RW_CSV = "URLEncodedFormHandler(csv=True): resp.media = {'author': 'Doe, John'} is written as b'author=Doe,+John' and reads back as " \
             "{'author': ['Doe', ' John']}"

    def configurations(f: Func, e):
        """every assignment of True / False to the constructor options that `e` or the reader's csv argument reads"""
        attrs = sorted((_self_attrs_read(f, e) if func_owner_class(f) is not None and func_owner_class(f).qual == uc.qual else set())
                       | _self_attrs_read(rd, csv_arg))
        unknown = [a for a in attrs if a not in options]
        if unknown:
            raise UnknownIdiom('%s: self.%s is not a boolean constructor option stored as it is (options: %s)' % (
                f.qual, unknown[0], sorted(options) or 'none'))
        envs = [{}]
        for a in attrs:
            envs = [dict(env, **{a: b}) for env in envs for b in (False, True)]
        return attrs, envs

    def check_safe(f: Func, call: ast.Call, e, own, what: str):
        x = e.value if isinstance(e, ast.Starred) else e
        if isinstance(x, ast.Name) and x.id in own:
            return                                         # the enclosing quoting function's own parameter handed on
        if isinstance(e, ast.Starred):
            raise UnknownIdiom('%s: safe argument %s does not fold' % (f.qual, short(e, 40)))
        attrs, envs = configurations(f, e)
        bad, shown = [], []
        for env in envs:
            try:
                v = _config_eval(p, f, e, env)
                splits = _config_eval(p, rd, csv_arg, env)
            except _NotEvaluable as ex:
                raise UnknownIdiom('%s: safe argument %s does not fold (%s)' % (f.qual, short(e, 40), ex))
            if not isinstance(v, (str, bytes)) or not isinstance(splits, bool):
                raise UnknownIdiom('%s: safe argument %s does not fold' % (f.qual, short(e, 40)))
            v = v.decode('latin-1') if isinstance(v, bytes) else v
            special = _FORM_SPECIAL + (_CSV_DELIM if splits else '')
            cname = ', '.join('%s=%s' % (options[a], env[a]) for a in attrs) or 'every configuration'
            shown.append('%s: safe=%r, the reader splits on %r' % (cname, v, special))
            hit = sorted(set(v) & set(special))
            if hit:
                bad.append((cname, v, hit))
        what_txt = '%s: no character that is special to the SAME configuration\'s form reader (%% & = + always, \',\' when it splits ' \
                   'comma-separated values) is exempted from escaping' % what
        if not bad:
            run.ok(what_txt, f.loc(call), call)
            return
        cname, v, hit = bad[0]
        run.fail(what_txt + ' - configuration %s declares %s safe' % (cname, ' '.join(repr(h) for h in hit)), f, call, where=f.loc(call),
                 witness=shown, runtime_witness=RW_CSV if hit == [_CSV_DELIM] else RW)

    def scan_body(f: Func, root, own):
        """encoders applied inside root (a helper / lambda body): [(True | (False, why), call)]; `own` = parameters of that helper"""
        found = []
        for n in ast.walk(root):
            if not isinstance(n, ast.Call):
                continue
            t = qual_of(f, n.func)
            q = t.qual if isinstance(t, Func) else t
            v = verdict_encoder(q) if isinstance(q, str) else None
            if v is None:
                continue
            found.append((v, n))
            if q in _URLLIB_QUOTERS:
                if len(n.args) > 1:
                    check_safe(f, n, n.args[1], own, 'form quoting helper')
                for k in n.keywords:
                    if k.arg == 'safe':
                        check_safe(f, n, k.value, own, 'form quoting helper')
        return found

    def lambda_params(e: ast.Lambda):
        la = e.args
        return ({x.arg for x in la.posonlyargs + la.args + la.kwonlyargs} | ({la.vararg.arg} if la.vararg else set())
                | ({la.kwarg.arg} if la.kwarg else set()))

    def judge_quoter(f: Func, e, depth=0):
        """quote_via expression -> list of (verdict, node, func)"""
        if isinstance(e, ast.Lambda):
            found = scan_body(f, e.body, lambda_params(e))
            if not found:
                raise UnknownIdiom('%s: quoting lambda %s applies no known encoder' % (f.qual, short(e, 60)))
            return [(v, n, f) for v, n in found]
        if isinstance(e, ast.Call) and qual_of(f, e.func) == 'functools.partial' and e.args:
            for k in e.keywords:
                if k.arg == 'safe':
                    check_safe(f, e, k.value, set(), 'form serializer (partial)')
            return judge_quoter(f, e.args[0], depth)
        if isinstance(e, ast.Name) and depth == 0:
            # a local bound once in serialize
            binds = [a.value for a in walk_no_nested(f.node) if isinstance(a, ast.Assign) and len(a.targets) == 1
                     and isinstance(a.targets[0], ast.Name) and a.targets[0].id == e.id]
            if len(binds) == 1:
                return judge_quoter(f, binds[0], depth)
            if binds:
                raise UnknownIdiom('%s: %s is bound more than once' % (f.qual, e.id))
        t = qual_of(f, e)
        if isinstance(t, Func):
            if depth >= 1:
                raise UnknownIdiom('%s: quoting function %s is reached through more than one level of helper' % (ser.qual, t.qual))
            found = scan_body(t, t.node, set(t.params()))
            # one further level only for plain forwarding helpers is not followed: unknown
            if not found:
                raise UnknownIdiom('%s: quoting helper %s applies no known encoder' % (ser.qual, t.qual))
            return [(v, n, t) for v, n in found]
        if isinstance(t, str):
            v = verdict_encoder(t)
            if v is not None:
                return [(v, e, f)]
        raise UnknownIdiom('%s: quote_via=%s cannot be resolved to a known quoting function' % (ser.qual, short(e, 60)))

    calls = [c for c in walk_no_nested(ser.node) if isinstance(c, ast.Call) and qual_of(ser, c.func) == 'urllib.parse.urlencode']
    if not calls:
        raise UnknownIdiom('%s: no urllib.parse.urlencode(...) call (form text produced some other way)' % ser.qual)
    for c in calls:
        if any(k.arg is None for k in c.keywords) or any(isinstance(a, ast.Starred) for a in c.args):
            raise UnknownIdiom('%s: %s' % (ser.qual, short(c, 60)))
        given = dict(zip(('query', 'doseq', 'safe', 'encoding', 'errors', 'quote_via'), c.args))
        given.update({k.arg: k.value for k in c.keywords})
        qv = given.get('quote_via')
        if qv is None:
            run.ok("form serializer: names and values are quoted by urlencode's default quote_plus ('%' always becomes %25)", ser.loc(c), c)
        else:
            for v, node, fn in judge_quoter(ser, qv):
                if v is True:
                    run.ok("form serializer: the quoting function escapes '%' and the form delimiters unconditionally", fn.loc(node), node)
                else:
                    run.fail('form serializer: the quoting function is not injective on text - ' + v[1], fn, node, where=fn.loc(node),
                             witness=['%s  %s' % (ser.loc(c), short(c, 80))], runtime_witness=RW)
        sv = given.get('safe')
        if sv is None:
            run.ok('form serializer: no character is exempted from escaping (safe defaults to empty)', ser.loc(c), 'safe: default')
        else:
            check_safe(ser, c, sv, set(), 'form serializer')
    # an encoder applied to names/values by serialize itself, outside urlencode's quoting
    n_direct = 0
    for n in walk_no_nested(ser.node):
        if isinstance(n, ast.Call):
            t = qual_of(ser, n.func)
            q = t.qual if isinstance(t, Func) else t
            v = verdict_encoder(q) if isinstance(q, str) else None
            if v is not None and v is not True and table.get(q, {}).get('check_is_escaped'):
                n_direct += 1
                run.fail('form serializer: applies an encoder that is not injective on text - ' + v[1], ser, n, runtime_witness=RW)
    if not n_direct:
        run.ok('form serializer: applies no *_check_escaped encoder to names or values itself', ser.loc(), ser.qual)


# ---------------------------------------------------------------------------
# R7 the form reader rejects a body only because a parsing primitive failed
# (added after seeded change s6-c12-2)
# ---------------------------------------------------------------------------
# Every string is a legitimate form name / value: the writer percent-encodes
# whatever it is given, so the DECODED content of a well-formed body can be any
# text at all (U+FFFD REPLACEMENT CHARACTER, control characters, text that
# looks like an escape, the empty mapping).  The reader may therefore answer
# "malformed" only for a failure of its parsing primitives - the exceptions of
# `body.decode('ascii')` / parse_query_string(), mapped by the except arm (R2).
# A rejection its own code DECIDES by looking at decoded content - an explicit
# raise / assert (outside the mapping arm) behind a test that reads text which
# went through a percent-decoder (frozen table PERCENT_DECODERS), or the
# parsed result - refuses the form the writer produces for exactly that
# content.  Decided on URLEncodedFormHandler._deserialize and the helpers of
# its class / module it hands the body text or the parsed result to:
#   * every explicit raise / assert outside an except arm: the tests that
#     decide it (dominating branch outcomes, the assert's own test) are
#     classified; one that reads decoded content through a CONTENT_TESTS shape
#     (membership, truthiness, comparison with a constant, str predicates,
#     regular expressions) is the violation; a rejection decided in any other
#     way (raw body text, configuration) is an unknown idiom;
#   * what is returned is the parser's result as it is (a filtered / rebuilt
#     result is an unknown idiom).

PERCENT_DECODERS = {
    'falcon.util.uri.decode': 'percent-decodes text (errors=replace)',
    'falcon.util.uri.unquote_string': 'unquotes a quoted string',
    'falcon.util.uri.parse_query_string': 'splits and percent-decodes a query string / form',
    'urllib.parse.unquote': 'percent-decodes text',
    'urllib.parse.unquote_plus': 'percent-decodes text, + as space',
    'urllib.parse.unquote_to_bytes': 'percent-decodes to bytes',
    'urllib.parse.parse_qs': 'splits and percent-decodes a query string',
    'urllib.parse.parse_qsl': 'splits and percent-decodes a query string',
}
CONTENT_STR_TESTS = ('startswith', 'endswith', 'find', 'rfind', 'index', 'rindex', 'count', 'isprintable', 'isascii', 'isalnum', 'isalpha',
                     'isdigit', 'isidentifier', 'isspace', 'encode', 'get', 'keys', 'values', 'items', 'strip', 'isdisjoint')
_R7_WITNESS = "resp.media = {'k': '\ufffd'} is written as b'k=%EF%BF%BD'; sent back with the same content type it is answered with " \
              "400 'Invalid URL-encoded' instead of deserializing to an equal mapping"


def r7_form_reader_rejects_only_parse_failures(run):
    from .c11 import _bindings_from, _derived_closure, _text_derived
    p = run.project
    uc = p.cls('falcon.media.urlencoded.URLEncodedFormHandler')
    des = uc.methods.get('_deserialize')
    if des is None:
        raise AnchorError('URLEncodedFormHandler._deserialize not found')
    params = [a.arg for a in des.node.args.args]
    if len(params) != 2:
        raise UnknownIdiom('%s takes %s' % (des.qual, params))
    n_bad = [0]
    seen: Set[str] = set()

    def decoder_of(f: Func, c: ast.Call) -> Optional[str]:
        t = p.resolve_callable(f, c.func) if isinstance(c.func, (ast.Name, ast.Attribute)) else None
        q = t.qual if isinstance(t, Func) else t
        return q if isinstance(q, str) and q in PERCENT_DECODERS else None

    def analyse(f: Func, raw0: Set[str], dec0: Set[str], depth: int):
        """`raw0`: parameters carrying the body (bytes / ASCII text); `dec0`: parameters carrying decoded content"""
        if f.qual in seen:
            return
        seen.add(f.qual)
        run.use(f)
        raw: Set[str] = set()
        for n0 in raw0:
            raw |= _derived_closure(f.node, n0)
        binds = list(_bindings_from(f.node))

        def is_decoded(e) -> bool:
            for x in ast.walk(e):
                if isinstance(x, ast.Name) and isinstance(x.ctx, ast.Load) and x.id in dec:
                    return True
                if isinstance(x, ast.Call) and decoder_of(f, x) and any(_text_derived(a, raw) or is_decoded(a)
                                                                        for a in list(x.args) + [k.value for k in x.keywords]):
                    return True
            return False

        dec: Set[str] = set(dec0)
        changed = True
        while changed:
            changed = False
            for tgts, v in binds:
                if not tgts <= dec and is_decoded(v):
                    dec |= tgts
                    changed = True
        raw -= dec

        def reads_raw(e) -> bool:
            return any(isinstance(x, ast.Name) and isinstance(x.ctx, ast.Load) and x.id in raw for x in ast.walk(e))

        def content_shape(test) -> bool:
            """every leaf of the test that reads decoded content is one of the CONTENT_TESTS shapes"""
            ok = True
            for leaf in _leaves(test):
                if not is_decoded(leaf):
                    continue
                x = leaf
                if isinstance(x, ast.Compare) and all(isinstance(o, (ast.In, ast.NotIn, ast.Eq, ast.NotEq, ast.Lt, ast.LtE, ast.Gt, ast.GtE))
                                                      for o in x.ops):
                    continue
                if isinstance(x, (ast.Name, ast.Attribute, ast.Subscript)):
                    continue                                   # truthiness
                if isinstance(x, ast.Call) and isinstance(x.func, ast.Name) and x.func.id in ('len', 'any', 'all', 'bool'):
                    continue
                if isinstance(x, ast.Call) and isinstance(x.func, ast.Attribute) and x.func.attr in CONTENT_STR_TESTS:
                    continue
                if isinstance(x, ast.Call) and (dotted(x.func) or '').split('.')[0] in ('re', 'fnmatch', 'unicodedata'):
                    continue
                if isinstance(x, ast.Call) and isinstance(x.func, ast.Attribute) and x.func.attr in (
                        'search', 'match', 'fullmatch', 'findall', 'finditer'):
                    continue                                   # compiled pattern
                if isinstance(x, ast.Call) and decoder_of(f, x):
                    continue
                ok = False
            return ok

        def _leaves(e):
            if isinstance(e, ast.BoolOp):
                for v in e.values:
                    yield from _leaves(v)
            elif isinstance(e, ast.UnaryOp) and isinstance(e.op, ast.Not):
                yield from _leaves(e.operand)
            else:
                yield e

        cfg = cfg_of(f, p)
        run.use_cfg(cfg)
        in_handler: Set[int] = set()
        for h in walk_self(f.node):
            if isinstance(h, ast.ExceptHandler):
                for st in h.body:
                    in_handler |= {id(x) for x in ast.walk(st)}
        tag = '%s.%s' % (uc.name, f.name) if f.cls is not None else f.qual.rsplit('.', 1)[-1]
        what = 'form reader (%s): a body is answered with the malformed-media error only because a parsing primitive failed ' \
               "(decode('ascii') / parse_query_string) - never because its own code looked at the percent-DECODED content " \
               '(membership / pattern / predicate test on decoded text or on the parsed result)' % tag
        n_rej = 0
        for st in walk_self(f.node):
            if not isinstance(st, (ast.Raise, ast.Assert)) or id(st) in in_handler:
                continue
            nids = cfg.nodes_for(st)
            if not nids:
                continue
            n_rej += 1
            deciding = [(st.test, True)] if isinstance(st, ast.Assert) else []
            for t in cfg.live_nodes():
                if t.kind != 'test':
                    continue
                for (y, l) in cfg.succ[t.id]:
                    if l in ('T', 'F') and all(flow.dominated_by_edge(cfg, nid, (t.id, y, l)) for nid in nids):
                        deciding.append((t.ast, l == 'T'))
            by_content = [(t, v) for t, v in deciding if is_decoded(t)]
            if by_content:
                for t, v in by_content:
                    if not content_shape(t):
                        raise UnknownIdiom('%s: test %s on decoded content deciding %s' % (f.qual, short(t, 60), short(st, 60)))
                    n_bad[0] += 1
                    run.fail(what, f, t, where=f.loc(t), witness=['%s is reached when %s is %s' % (short(st, 60), short(t, 60), str(v).lower())] + [
                        'decoded content: %s' % ', '.join(sorted({x.id for x in ast.walk(t) if isinstance(x, ast.Name) and x.id in dec}) or
                                                          ['the result of a percent-decoder called in the test'])],
                             runtime_witness=_R7_WITNESS)
                continue
            raise UnknownIdiom('%s: %s is decided by %s - not a failure of a parsing primitive, and not read' % (
                f.qual, short(st, 60), ' and '.join(short(t, 40) for t, _ in deciding) or 'no test'))
        if not n_rej:
            run.ok(what + ' [no explicit raise / assert outside the mapping except arm]', f.loc(), f.qual)

        # helpers that receive the body text or decoded content
        for c in walk_self(f.node):
            if not isinstance(c, ast.Call) or id(c) in in_handler or decoder_of(f, c):
                continue
            t = p.resolve_callable(f, c.func) if isinstance(c.func, (ast.Name, ast.Attribute)) else None
            if not isinstance(t, Func) or not (t.module is f.module):
                continue
            hp = [a.arg for a in t.node.args.posonlyargs + t.node.args.args]
            if t.cls is not None and hp and hp[0] in ('self', 'cls') and isinstance(c.func, ast.Attribute):
                hp = hp[1:]
            r2, d2 = set(), set()
            for i, a in enumerate(c.args):
                if isinstance(a, ast.Starred) or i >= len(hp):
                    continue
                if is_decoded(a):
                    d2.add(hp[i])
                elif _text_derived(a, raw):
                    r2.add(hp[i])
            for k in c.keywords:
                if k.arg in hp:
                    if is_decoded(k.value):
                        d2.add(k.arg)
                    elif _text_derived(k.value, raw):
                        r2.add(k.arg)
            if r2 or d2:
                if depth >= 2:
                    raise UnknownIdiom('%s: the body is handed on through more than two levels of helpers (%s)' % (des.qual, t.qual))
                analyse(t, r2, d2, depth + 1)
        return dec, is_decoded

    dec, is_decoded = analyse(des, {params[1]}, set(), 0)

    # what is returned is the parser's result as it is
    pq = [c for c in walk_self(des.node) if isinstance(c, ast.Call) and isinstance(p.resolve_callable(des, c.func), Func)
          and p.resolve_callable(des, c.func).qual == 'falcon.util.uri.parse_query_string']
    if not pq:
        raise AnchorError('%s: parse_query_string() call not found' % des.qual)
    rets = [r for r in walk_self(des.node) if isinstance(r, ast.Return)]
    if not rets:
        raise AnchorError('%s: no return' % des.qual)
    for r in rets:
        v = r.value
        if isinstance(v, ast.Name):
            b = _assignments(des.node, v.id)
            if len(b) == 1 and b[0][1] is not None:
                v = b[0][1]
        if not any(v is c for c in pq):
            raise UnknownIdiom('%s: %s does not hand out the result of parse_query_string() as it is' % (des.qual, short(r, 60)))
        run.ok('form reader: what is returned is the result of parse_query_string() as it is (nothing is filtered out of it)', des.loc(r), r)
    if not n_bad[0]:
        run.ok('form reader: no rejection is decided by a look at the decoded content', des.loc(), des.qual)

# ---------------------------------------------------------------------------
# R8 a handler's serializer / deserializer slots are bound on every constructor path
# ---------------------------------------------------------------------------

BASE_HANDLER = 'falcon.media.base.BaseHandler'
JSON_HANDLER = 'falcon.media.json.JSONHandler'


def _is_abstract(p, f: Func) -> bool:
    """No normal path to the exit and every way out is `raise NotImplementedError`."""
    cfg = cfg_of(f, p)
    if cfg.exit in flow.reachable(cfg, [cfg.entry], edge_filter=flow.no_exc):
        return False
    raises = [n for n in walk_self(f.node) if isinstance(n, ast.Raise)]
    if not raises:
        return False
    for r in raises:
        e = r.exc.func if isinstance(r.exc, ast.Call) else r.exc
        if e is None or p.resolve_expr(f.module, e, f) != 'builtins.NotImplementedError':
            return False
    return True


def _self_bindings(p, cq: str, f: Func, depth: int):
    """(attr -> CFG node ids of `f` after which self.<attr> is bound, cfg of f, attrs bound at all).
    A node binds the attribute when it stores to it directly, or when it is a plain call statement
    `self._helper(...)` of a method of the same class (found through the MRO of `cq`) that itself binds the attribute
    on EVERY normal path (the helper's stores are the constructor's: same receiver, same point of the path).  An
    attribute a helper binds on some of its paths only gets an entry with no node from that call."""
    cfg = cfg_of(f, p)
    sn = f.params()[0] if f.params() else 'self'
    assigned: Dict[str, List[int]] = {}
    for n in walk_self(f.node):
        if isinstance(n, ast.Call) and isinstance(n.func, ast.Name) and n.func.id == 'setattr':
            raise UnknownIdiom('%s binds attributes through setattr()' % f.qual)
    for n in cfg.live_nodes():
        if n.kind != 'stmt':
            continue
        if isinstance(n.ast, (ast.Assign, ast.AnnAssign)) and getattr(n.ast, 'value', None) is not None:
            for t in (n.ast.targets if isinstance(n.ast, ast.Assign) else [n.ast.target]):
                for x in (t.elts if isinstance(t, (ast.Tuple, ast.List)) else [t]):
                    if isinstance(x, ast.Attribute) and isinstance(x.value, ast.Name) and x.value.id == sn:
                        assigned.setdefault(x.attr, []).append(n.id)
            continue
        if not (isinstance(n.ast, ast.Expr) and isinstance(n.ast.value, ast.Call)):
            continue
        call = n.ast.value
        if not (isinstance(call.func, ast.Attribute) and isinstance(call.func.value, ast.Name) and call.func.value.id == sn):
            continue
        h = p.lookup_method(cq, call.func.attr)
        if h is None or h.is_async or h.node is f.node:
            continue
        if depth >= 3:
            raise UnknownIdiom('%s: constructor helpers nested deeper than 3 calls' % f.qual)
        h_assigned, h_cfg, _m = _self_bindings(p, cq, h, depth + 1)
        for attr, ids in h_assigned.items():
            must = bool(ids) and flow.find_path(h_cfg, [h_cfg.entry], [h_cfg.exit], avoid_nodes=ids,
                                                edge_filter=flow.no_exc) is None
            lst = assigned.setdefault(attr, [])
            if must:
                lst.append(n.id)
    return assigned, cfg, set(assigned)


def r8_handler_slots_bound(run):
    """A media handler may choose its (de)serializer implementation per instance (`self.serialize = self._serialize_b`).
    Such a slot has no working class-level fallback when the method found through the MRO is one of BaseHandler's
    abstract placeholders (all paths raise NotImplementedError) or nothing at all; then the slot must be bound on EVERY
    normal path through the constructor -- for both result types (str / bytes) of the configured dumps().  Slots with a
    working fallback (serialize_async delegates to serialize; `_serialize_sync = None` means "no fast path") may be
    bound on some paths only.  JSONHandler, the handler the framework itself renders errors and media with, must
    provide both abstract slots one way or the other.
    W: JSONHandler(dumps=orjson.dumps) (bytes): no instance `serialize`, BaseHandler.serialize raises
    NotImplementedError -> every `resp.media = doc` is a 500."""
    p = run.project
    base = p.cls(BASE_HANDLER)
    abstract = sorted(n for n, f in base.methods.items() if not f.is_async and _is_abstract(p, f))
    if not abstract:
        raise AnchorError('%s has no abstract (NotImplementedError) placeholder any more' % BASE_HANDLER)
    run.sample({'abstract slots of BaseHandler': abstract})
    n_ob = 0
    for cq in sorted(p.subclasses(BASE_HANDLER)):
        if cq == BASE_HANDLER:
            continue
        c = p.cls(cq)
        init = c.methods.get('__init__')
        assigned: Dict[str, List[int]] = {}
        cfg = None
        if init is not None:
            assigned, cfg, _may = _self_bindings(p, cq, init, 0)

        def fallback(name: str) -> str:
            m = p.lookup_method(cq, name)
            if m is not None:
                return 'abstract' if _is_abstract(p, m) else 'working'
            _c, v = p.lookup_class_attr(cq, name)
            return 'working' if v is not None else 'none'

        slots = set(assigned)
        if cq == JSON_HANDLER:
            slots |= set(abstract)
        for name in sorted(slots):
            fb = fallback(name)
            if fb == 'working':
                if cq == JSON_HANDLER and name in abstract:
                    n_ob += 1
                    m = p.lookup_method(cq, name)
                    run.ok('JSONHandler provides the %s slot at class level (%s)' % (name, m.qual if m is not None else 'class attribute'),
                           m.loc() if m is not None else c.loc(), name)
                continue
            if name not in abstract and not (name.startswith('serialize') or name.startswith('deserialize')
                                             or name.startswith('_serialize') or name.startswith('_deserialize')):
                continue   # plain state (self._dumps, ...): definite assignment of ordinary attributes is not this rule's business
            n_ob += 1
            if not assigned.get(name):
                run.fail('%s provides the %s slot (class-level definition or a binding in its constructor)' % (cq.rsplit('.', 1)[-1], name),
                         init if init is not None else cq, 'no %s' % name, where=(init.loc() if init is not None else c.loc()),
                         runtime_witness='handler.%s(...) raises NotImplementedError / AttributeError: resp.media or req.get_media() is a 500' % name)
                continue
            run.use_cfg(cfg)
            path = flow.find_path(cfg, [cfg.entry], [cfg.exit], avoid_nodes=assigned[name], edge_filter=flow.no_exc)
            run.check(path is None, '%s.__init__ binds self.%s on every normal path (the class-level fallback is %s)'
                      % (cq.rsplit('.', 1)[-1], name, 'BaseHandler\'s NotImplementedError placeholder' if fb == 'abstract' else 'missing'),
                      init, 'self.%s is not bound on this path' % name, where=init.loc(cfg.node(assigned[name][0]).ast),
                      witness=flow.describe_path(cfg, path) if path else None,
                      runtime_witness='JSONHandler(dumps=<function returning bytes>): handler.%s is BaseHandler.%s -> NotImplementedError, '
                                      'every resp.media = doc answers 500' % (name, name))
    if n_ob == 0:
        raise AnchorError('no handler class binds a serializer slot per instance and %s was not found' % JSON_HANDLER)


def check(run):
    run.assume('E5 assumptions (see C09/C11); the configured JSON loads() raises ValueError subclasses only (json.JSONDecodeError is one)')
    run.assume('urllib.parse.urlencode emits pure ASCII')
    run.rule('R1', _safe(r1_parse_once), 'get_media: parse once, cache value and error, exhaust, default only for not-found; WSGI==ASGI', floor=50)
    run.rule('R2', _safe(r2_error_mapping), 'JSON/URL-encoded handlers map failures to the two 400-class media errors', floor=9)
    run.rule('R3', _safe(r3_codec_agreement), 'serializer/deserializer codec agreement; every JSON loader call on the deserialisation path receives decoded text', floor=8)
    run.rule('R4', _safe(r4_render_cache), 'response render cache reset by writers, honoured by the three render sites', floor=20)
    # which handler parses/renders a document is decided by the resolver: the requested type and the registered keys
    # must be compared in one case form (shared with C11 R9)
    from . import c11 as _c11

    run.rule('R5', _c11._safe(_c11.r9_same_case_form), 'handler resolution compares requested type and registered keys in one case form (shared with C11 R9)', floor=2)
    run.rule('R6', _safe(r6_form_quoting), "the form serializer's quoting function escapes '%' and the form delimiters unconditionally (no *_check_escaped encoder)", floor=4)
    run.rule('R7', _safe(r7_form_reader_rejects_only_parse_failures), 'the form reader rejects a body only for a failure of its parsing primitives, never by '
             'inspecting the percent-decoded content (U+FFFD sniffing, pattern / membership tests on decoded text)', floor=2)
    run.rule('R8', _safe(r8_handler_slots_bound), 'a (de)serializer slot without a working class-level fallback is bound on every normal path of the handler constructor (both dumps() result types)', floor=2)
    run.rule('R9', _safe(r9_shortcut_slots_exact_type), 'the sync shortcut slots (_serialize_sync / _deserialize_sync) are bound only under `type(self) is <Class>` or a test '
             'covering every public method the ASGI flavour calls them instead of (read from get_media / render_body)', floor=6)
    run.rule('R10', _safe(r10_async_parses_whole_body_once), 'deserialize_async hands the parser of its sync sibling the whole body (read-to-end), once, outside any loop: '
             'the document does not depend on the chunking', floor=6)


# ---------------------------------------------------------------------------
# R9 the sync shortcut slots are bound only where no public method they replace can be overridden
# (added after seeded change s9-c12-1)
# ---------------------------------------------------------------------------
#
# The ASGI flavour asks the resolver for (handler, handler._serialize_sync, handler._deserialize_sync) and, when a slot is
# set, calls IT instead of the handler's public coroutine (`await handler.deserialize_async(...)` /
# `await handler.serialize_async(...)`).  Which coroutine a slot replaces is READ from the consumers (the else arm of the
# test on the slot variable); the public methods that coroutine reaches through `self.<m>(...)` as the handler class resolves
# them (BaseHandler.serialize_async -> self.serialize) are replaced with it.  A handler constructor may therefore bind a slot
# to a value only under a dominating test that excludes every subclass (`type(self) is <Class>`), or that shows each replaced
# method to be the class's own (`type(self).m is <Class>.m` for every such m).  isinstance() excludes nothing.

RESOLVER_QUAL = 'falcon.media.handlers.Handlers._create_resolver'
SLOT_CONSUMERS = ('falcon.asgi.request.Request.get_media', 'falcon.asgi.response.Response.render_body')
_R9_WITNESS = "class ListForm(URLEncodedFormHandler): async def deserialize_async(...) -> lists; on ASGI req.get_media() gives the BASE " \
              "handler's parse ({'tag': 'a'} instead of {'tag': ['a']}) while WSGI calls the configured handler: the two flavours disagree"


def _resolver_slot_positions(p) -> Dict[int, str]:
    """tuple position -> slot attribute, read from the resolver's value return (handler, getattr(handler, '<slot>', None), ...)"""
    cr = p.func(RESOLVER_QUAL)
    res = single(list(cr.nested.values()), 'nested resolver function', cr.qual)
    out: Dict[int, str] = {}
    for r in walk_self(res.node):
        if isinstance(r, ast.Return) and isinstance(r.value, ast.Tuple):
            for i, e in enumerate(r.value.elts):
                if isinstance(e, ast.Call) and isinstance(e.func, ast.Name) and e.func.id == 'getattr' and len(e.args) >= 2 \
                        and isinstance(e.args[1], ast.Constant) and isinstance(e.args[1].value, str):
                    if out.get(i, e.args[1].value) != e.args[1].value:
                        raise UnknownIdiom('resolver: position %d carries two different slots' % i)
                    out[i] = e.args[1].value
                elif isinstance(e, ast.Attribute) and e.attr.endswith('_sync'):
                    out[i] = e.attr
    if not out:
        raise AnchorError('resolver: no return of (handler, getattr(handler, <slot>, None), ...) found')
    return out


def _replaced_coroutines(run, p, positions: Dict[int, str]) -> Dict[str, Set[str]]:
    """slot attribute -> names of the handler coroutines the ASGI consumers call when the slot is NOT set"""
    out: Dict[str, Set[str]] = {}

    def bodies(f: Func, depth=0, seen=()):
        """the consumer and the same-class helpers it calls on `self` (depth <= 2): the `_resolve(...)` unpacking and the
        slot test may have moved into one of them"""
        yield f
        sn = (f.node.args.posonlyargs + f.node.args.args)[0].arg if (f.node.args.posonlyargs + f.node.args.args) else None
        if depth >= 2 or sn is None or func_owner_class(f) is None:
            return
        for c in walk_self(f.node):
            if isinstance(c, ast.Call) and isinstance(c.func, ast.Attribute) and isinstance(c.func.value, ast.Name) and c.func.value.id == sn:
                g = p.callee(f, c)
                if isinstance(g, Func) and g is not f and g.qual not in seen and func_owner_class(g) is not None \
                        and p.is_subclass(func_owner_class(f).qual, func_owner_class(g).qual) is True:
                    yield from bodies(g, depth + 1, seen + (f.qual, g.qual))

    for q, f in [(q, f) for q in SLOT_CONSUMERS for f in bodies(p.func(q))]:
        run.use(f)
        for n in walk_self(f.node):
            if not (isinstance(n, ast.Assign) and len(n.targets) == 1 and isinstance(n.targets[0], ast.Tuple)
                    and isinstance(strip_await(n.value), ast.Call) and isinstance(strip_await(n.value).func, ast.Attribute)
                    and strip_await(n.value).func.attr == '_resolve'):
                continue
            elts = n.targets[0].elts
            hname = elts[0].id if isinstance(elts[0], ast.Name) else None
            for i, slot in positions.items():
                if i >= len(elts) or not isinstance(elts[i], ast.Name):
                    continue
                var = elts[i].id
                if not any(isinstance(x, ast.Name) and x.id == var and isinstance(x.ctx, ast.Load) for x in walk_self(f.node)):
                    continue                # a placeholder target: this consumer does not use that slot
                tests = [t for t in walk_self(f.node) if isinstance(t, ast.If) and isinstance(t.test, ast.Name) and t.test.id == var]
                if not tests:
                    raise UnknownIdiom('%s: the slot variable %s is not tested by `if %s:`' % (q, var, var))
                for t in tests:
                    calls = [c for s in t.orelse for c in walk_self(s) if isinstance(c, ast.Call) and isinstance(c.func, ast.Attribute)
                             and isinstance(c.func.value, ast.Name) and c.func.value.id == hname]
                    if not calls:
                        raise UnknownIdiom('%s: no handler method is called where %s is unset' % (q, var))
                    for c in calls:
                        out.setdefault(slot, set()).add(c.func.attr)
    if not out:
        raise AnchorError('no ASGI consumer of the sync shortcut slots found')
    return out


def _self_called_public(p, cq: str, names: Set[str]) -> Set[str]:
    """closure of `names` under `self.<m>(...)` calls to public (de)serializer methods, as class cq resolves them"""
    out = set(names)
    work = list(names)
    while work:
        m = p.lookup_method(cq, work.pop())
        if m is None:
            continue
        sn = m.params()[0] if m.params() else 'self'
        for c in walk_self(m.node):
            if isinstance(c, ast.Call) and isinstance(c.func, ast.Attribute) and isinstance(c.func.value, ast.Name) and c.func.value.id == sn \
                    and c.func.attr in ('serialize', 'deserialize', 'serialize_async', 'deserialize_async') and c.func.attr not in out:
                out.add(c.func.attr)
                work.append(c.func.attr)
    return out


def _type_guard_facts(p, f: Func, cq: str, test, truth: bool, typeof_names: Set[str], sn: str):
    """facts a branch outcome establishes: ('exact',) - type(self) is the class; ('same', m) - type(self).m is the class's m.
    second result: does the test talk about the type of self in a shape that is not read?"""
    facts: Set[tuple] = set()
    unread = [False]

    def is_typeof(e):
        if isinstance(e, ast.Call) and isinstance(e.func, ast.Name) and e.func.id == 'type' and len(e.args) == 1 \
                and isinstance(e.args[0], ast.Name) and e.args[0].id == sn:
            return True
        if isinstance(e, ast.Attribute) and e.attr == '__class__' and isinstance(e.value, ast.Name) and e.value.id == sn:
            return True
        return isinstance(e, ast.Name) and e.id in typeof_names

    def is_cls(e):
        return isinstance(e, (ast.Name, ast.Attribute)) and not is_typeof(e) and p.resolve_expr(f.module, e, f) == cq

    def mentions_type(e):
        return any(is_typeof(x) or (isinstance(x, ast.Attribute) and x.attr in ('__func__', '__mro__', '__bases__')) for x in walk_self(e))

    def walk(e, t):
        if isinstance(e, ast.UnaryOp) and isinstance(e.op, ast.Not):
            return walk(e.operand, not t)
        if isinstance(e, ast.BoolOp):
            if (isinstance(e.op, ast.And) and t) or (isinstance(e.op, ast.Or) and not t):
                for v in e.values:
                    walk(v, t)
            elif mentions_type(e):
                unread[0] = True          # `a or b` that is true: neither disjunct is known
            return
        if isinstance(e, ast.Compare) and len(e.ops) == 1:
            op = e.ops[0]
            pos = (isinstance(op, (ast.Is, ast.Eq)) and t) or (isinstance(op, (ast.IsNot, ast.NotEq)) and not t)
            l, r = e.left, e.comparators[0]
            for a, b in ((l, r), (r, l)):
                if is_typeof(a) and is_cls(b):
                    if pos:
                        facts.add(('exact',))
                    return
                if isinstance(a, ast.Attribute) and isinstance(b, ast.Attribute) and a.attr == b.attr and is_typeof(a.value) and is_cls(b.value):
                    if pos:
                        facts.add(('same', a.attr))
                    return
        if isinstance(e, ast.Call) and isinstance(e.func, ast.Name) and e.func.id in ('isinstance', 'issubclass'):
            return                          # true for every subclass: proves nothing
        if mentions_type(e):
            unread[0] = True

    walk(test, truth)
    return facts, unread[0]


def r9_shortcut_slots_exact_type(run):
    """A handler constructor binds `_serialize_sync` / `_deserialize_sync` to a value only under `type(self) is <Class>` or
    under a test showing every public method the slot replaces (read from the ASGI consumers) to be the class's own.
    W: a subclass overriding only deserialize_async is bypassed on ASGI when the guard looks at serialize/deserialize only."""
    p = run.project
    positions = _resolver_slot_positions(p)
    replaced = _replaced_coroutines(run, p, positions)
    run.sample({'sync shortcut slots replace': {k: sorted(v) for k, v in sorted(replaced.items())}})
    n_ob = 0
    for cq in sorted(p.subclasses(BASE_HANDLER)):
        c = p.cls(cq)
        init = c.methods.get('__init__')
        if init is None:
            continue
        sn = init.params()[0] if init.params() else 'self'
        cfg = cfg_of(init, p)
        binds = []
        for n in cfg.live_nodes():
            if n.kind != 'stmt' or not isinstance(n.ast, (ast.Assign, ast.AnnAssign)) or getattr(n.ast, 'value', None) is None:
                continue
            for t in (n.ast.targets if isinstance(n.ast, ast.Assign) else [n.ast.target]):
                for x in (t.elts if isinstance(t, (ast.Tuple, ast.List)) else [t]):
                    if isinstance(x, ast.Attribute) and isinstance(x.value, ast.Name) and x.value.id == sn and x.attr in replaced:
                        if isinstance(n.ast.value, ast.Constant) and n.ast.value.value is None:
                            continue
                        binds.append((n, x.attr))
        for s in walk_self(init.node):
            if isinstance(s, ast.Call) and isinstance(s.func, ast.Name) and s.func.id == 'setattr' and len(s.args) >= 2 \
                    and not (isinstance(s.args[1], ast.Constant) and s.args[1].value not in replaced):
                raise UnknownIdiom('%s binds attributes through setattr()' % init.qual)
        if not binds:
            continue
        run.use_cfg(cfg)
        typeof_names: Set[str] = set()
        for nm in {x.id for x in ast.walk(init.node) if isinstance(x, ast.Name) and isinstance(x.ctx, ast.Store)}:
            bs = _assignments(init.node, nm)
            if len(bs) == 1 and bs[0][1] is not None:
                v = bs[0][1]
                if (isinstance(v, ast.Call) and isinstance(v.func, ast.Name) and v.func.id == 'type' and len(v.args) == 1
                        and isinstance(v.args[0], ast.Name) and v.args[0].id == sn) or \
                        (isinstance(v, ast.Attribute) and v.attr == '__class__' and isinstance(v.value, ast.Name) and v.value.id == sn):
                    typeof_names.add(nm)
        for node, slot in binds:
            need = _self_called_public(p, cq, replaced[slot])
            facts: Set[tuple] = set()
            guards = []
            for t in cfg.live_nodes():
                if t.kind != 'test':
                    continue
                for (y, l) in cfg.succ[t.id]:
                    if l in ('T', 'F') and flow.dominated_by_edge(cfg, node.id, (t.id, y, l)):
                        fs, unread = _type_guard_facts(p, init, cq, t.ast, l == 'T', typeof_names, sn)
                        if unread and not fs:
                            raise UnknownIdiom('%s: the test %s in front of self.%s talks about the type of self in a shape this rule cannot read'
                                               % (init.qual, short(t.ast, 80), slot))
                        facts |= fs
                        if fs or any(isinstance(x, ast.Name) and x.id in typeof_names | {sn} for x in walk_self(t.ast)):
                            guards.append(t.ast)
            same = {m for k, *rest in facts if k == 'same' for m in rest}
            ok = ('exact',) in facts or need <= same
            n_ob += 1
            missing = sorted(need - same)
            guard_txt = ' and '.join(short(g, 160) for g in guards) or 'no test on the type of self'
            run.check(ok, '%s.__init__ binds self.%s (used by the ASGI flavour INSTEAD of %s) only where no subclass can have overridden what it replaces: '
                      'under `type(self) is %s` or a test covering %s' % (c.name, slot, '/'.join(sorted(replaced[slot])), c.name, ', '.join(sorted(need))),
                      init, 'self.%s = %s under %s' % (slot, short(node.ast.value, 60), guard_txt), where=init.loc(node.ast),
                      witness=None if ok else ['the guard does not show %s to be %s\'s own' % (', '.join(missing), c.name)],
                      runtime_witness=_R9_WITNESS)
    if n_ob == 0:
        raise AnchorError('no handler constructor binds a sync shortcut slot')
    return n_ob


# ---------------------------------------------------------------------------
# R10 deserialize_async parses the WHOLE body ONCE, like its sync sibling (added after seeded change s9-c12-2)
# ---------------------------------------------------------------------------
#
# "... deserializes to an equal document on WSGI and ASGI alike and for every chunking of the request body": the sync
# `deserialize` of a handler hands `stream.read()` - the whole body - to one parse callee.  Its coroutine sibling must hand
# the same callee the whole body too: the argument derives from `await stream.read()` without a size (or from a join over
# ALL chunks of the stream), the call is not inside a loop, and no path makes it twice.  A parser applied chunk by chunk sees
# the chunk boundaries (repeated keys merged by dict.update(), multi-byte sequences / escapes cut in two).

_R10_WITNESS = "body 'color=green&color=black&color=white&size=xl' delivered in several http.request events (subclassed handler or a nested " \
               "urlencoded multipart part): {'color': 'white', 'size': 'xl'} instead of the list - in one event, and on WSGI, the list is kept"


def _whole_read(e, stream: str) -> Optional[bool]:
    """True: `stream.read()` / `await stream.read()` with no size (or -1 / None); False: a sized read / readline / a chunk;
    None: something else"""
    e = strip_await(e)
    if isinstance(e, ast.Call) and isinstance(e.func, ast.Attribute) and isinstance(e.func.value, ast.Name) and e.func.value.id == stream:
        if e.func.attr in ('read', 'readall'):
            args = list(e.args) + [k.value for k in e.keywords]
            if not args:
                return True
            if len(args) == 1:
                a = args[0]
                if isinstance(a, ast.Constant) and a.value is None:
                    return True
                if isinstance(a, ast.UnaryOp) and isinstance(a.op, ast.USub) and isinstance(a.operand, ast.Constant) and a.operand.value == 1:
                    return True
            return False
        if e.func.attr in ('readline', 'readlines', 'read_until', 'peek', 'read1', 'readinto', 'pipe', 'pipe_until', 'delimit'):
            return False
    return None


def _is_chunk_itself(e, chunk: str) -> bool:
    """the chunk, or a plain copy of it (bytes(chunk) / bytearray(chunk) / memoryview(chunk))"""
    if isinstance(e, ast.Name):
        return e.id == chunk
    return isinstance(e, ast.Call) and isinstance(e.func, ast.Name) and e.func.id in ('bytes', 'bytearray', 'memoryview') \
        and len(e.args) == 1 and not e.keywords and _is_chunk_itself(e.args[0], chunk)


def _body_provenance(f: Func, e, stream: str, depth=0) -> str:
    """'whole' | 'partial' | 'unknown' for the data expression handed to the parser"""
    if depth > 6:
        return 'unknown'
    e = strip_await(e)
    w = _whole_read(e, stream)
    if w is not None:
        return 'whole' if w else 'partial'
    if isinstance(e, ast.Constant):
        return 'partial'                     # a literal is not the body
    if isinstance(e, ast.Name):
        binds = _assignments(f.node, e.id)
        if not binds:
            return 'unknown'
        kinds = set()
        for stmt, v in binds:
            if isinstance(stmt, (ast.For, ast.AsyncFor)):
                it = strip_await(stmt.iter)
                kinds.add('partial' if (isinstance(it, ast.Name) and it.id == stream) or any(
                    isinstance(x, ast.Name) and x.id == stream for x in ast.walk(it)) else 'unknown')
            elif v is None:
                # tuple unpacking / augmented assignment: pieces of something
                src = getattr(stmt, 'value', None)
                if src is not None and any(isinstance(x, ast.Name) and x.id == stream for x in ast.walk(src)):
                    kinds.add('partial')
                elif src is not None:
                    inner = {_body_provenance(f, x, stream, depth + 1) for x in ast.walk(src) if isinstance(x, ast.Name) and x.id != e.id}
                    kinds.add('partial' if 'partial' in inner else 'unknown')
                else:
                    kinds.add('unknown')
            else:
                kinds.add(_body_provenance(f, v, stream, depth + 1))
        if kinds == {'whole'}:
            return 'whole'
        return 'partial' if 'partial' in kinds else 'unknown'
    if isinstance(e, ast.Call) and isinstance(e.func, ast.Attribute) and e.func.attr == 'join' and len(e.args) == 1:
        a = e.args[0]
        # b''.join([chunk async for chunk in stream])  /  b''.join(chunks) with chunks filled by an unconditional append in a loop over the stream
        if isinstance(a, (ast.ListComp, ast.GeneratorExp)) and len(a.generators) == 1 \
                and isinstance(a.generators[0].iter, ast.Name) and a.generators[0].iter.id == stream and isinstance(a.generators[0].target, ast.Name):
            tgt = a.generators[0].target.id
            if _is_chunk_itself(a.elt, tgt) and not a.generators[0].ifs:
                return 'whole'
            # pieces transformed / filtered chunk by chunk (chunk.decode(), chunk.strip(), `if chunk...`): what is joined is not the
            # body as sent - the transformation sees the chunk boundaries
            return 'partial'
        if isinstance(a, ast.Name):
            for loop in [n for n in walk_self(f.node) if isinstance(n, (ast.For, ast.AsyncFor))]:
                if isinstance(loop.iter, ast.Name) and loop.iter.id == stream and isinstance(loop.target, ast.Name):
                    for s in loop.body:
                        if isinstance(s, ast.Expr) and isinstance(s.value, ast.Call) and isinstance(s.value.func, ast.Attribute) \
                                and s.value.func.attr == 'append' and isinstance(s.value.func.value, ast.Name) and s.value.func.value.id == a.id \
                                and len(s.value.args) == 1:
                            return 'whole' if _is_chunk_itself(s.value.args[0], loop.target.id) else 'partial'
                    if any(isinstance(x, ast.Call) and isinstance(x.func, ast.Attribute) and x.func.attr in ('append', 'extend')
                           and isinstance(x.func.value, ast.Name) and x.func.value.id == a.id for s in loop.body for x in ast.walk(s)):
                        return 'partial'             # appended under a condition / in a nested block: not every chunk as it came
        return 'unknown'
    if isinstance(e, ast.Call) and isinstance(e.func, ast.Attribute) and e.func.attr in ('decode', 'encode') and not isinstance(e.func.value, ast.Constant):
        return _body_provenance(f, e.func.value, stream, depth + 1)      # the whole text re-coded is still the whole body (R3 judges the codec)
    if isinstance(e, (ast.Subscript, ast.BinOp)):
        inner = {_body_provenance(f, x, stream, depth + 1) for x in ast.walk(e) if isinstance(x, ast.Name)}
        return 'partial' if inner & {'partial', 'whole'} else 'unknown'
    if isinstance(e, ast.Call) and isinstance(e.func, ast.Attribute) and e.func.attr in ('partition', 'rpartition', 'split', 'rsplit', 'strip'):
        inner = _body_provenance(f, e.func.value, stream, depth + 1)
        return 'partial' if inner in ('partial', 'whole') else 'unknown'
    return 'unknown'


def r10_async_parses_whole_body_once(run):
    """For every handler of falcon.media whose sync `deserialize` is `<parse>(stream.read())`: its own `deserialize_async` calls
    the same parse callee, outside any loop, at most once per path, on data that derives from a read-to-end of the stream.
    W: a repeated form key split over two ASGI body events collapses to its last value."""
    p = run.project
    n_ob = 0
    for cq in sorted(p.subclasses(BASE_HANDLER)):
        c = p.cls(cq)
        d, da = c.methods.get('deserialize'), c.methods.get('deserialize_async')
        if d is None or da is None or not cq.startswith('falcon.media.'):
            continue
        dparams = [x for x in d.params()]
        if len(dparams) < 2:
            continue
        sstream = dparams[1]
        # the sync sibling: which callee gets the whole body?
        callee = None
        for call in walk_self(d.node):
            if isinstance(call, ast.Call) and len(call.args) >= 1 and _whole_read(call, sstream) is None \
                    and _body_provenance(d, call.args[0], sstream) == 'whole':
                t = p.resolve_callable(d, call.func)
                if isinstance(t, Func):
                    callee = t
                elif not (isinstance(call.func, ast.Attribute) and call.func.attr in ('decode', 'encode', 'join')):
                    raise UnknownIdiom('%s: the whole body goes to %s' % (d.qual, short(call.func, 60)))
        if callee is None:
            if any(_whole_read(x, sstream) is not None for x in walk_self(d.node)):
                raise UnknownIdiom('%s reads the stream, but the parser the data goes to was not found' % d.qual)
            continue            # a handler that does not parse from a read-to-end (multipart: a lazy form object)
        run.use(d)
        aparams = [x for x in da.params()]
        if len(aparams) < 2:
            raise UnknownIdiom('%s takes %s' % (da.qual, aparams))
        astream = aparams[1]
        cfg = cfg_of(da, p)
        run.use_cfg(cfg)
        calls = [x for x in walk_self(da.node) if isinstance(x, ast.Call) and p.resolve_callable(da, x.func) is callee]
        if not calls:
            raise UnknownIdiom('%s does not call %s, the parser of its sync sibling' % (da.qual, callee.qual))
        parent = enclosing_map(da.node)
        for call in calls:
            n_ob += 1
            loops = []
            cur = parent.get(id(call))
            while cur is not None and cur is not da.node:
                if isinstance(cur, (ast.For, ast.AsyncFor, ast.While, ast.ListComp, ast.GeneratorExp, ast.SetComp, ast.DictComp)):
                    loops.append(cur)
                cur = parent.get(id(cur))
            if loops:
                lp = loops[-1]
                run.fail('%s: the parser %s is applied once to the whole body, not inside a loop' % (da.qual, callee.name), da, call, where=da.loc(call),
                         witness=['inside: %s' % (short(lp, 80).splitlines()[0])], runtime_witness=_R10_WITNESS)
                continue
            if not call.args:
                raise UnknownIdiom('%s: %s' % (da.qual, short(call, 60)))
            prov = _body_provenance(da, call.args[0], astream)
            if prov == 'unknown':
                raise UnknownIdiom('%s: where the data of %s comes from (expected `await %s.read()` or a join of all chunks)'
                                   % (da.qual, short(call, 60), astream))
            run.check(prov == 'whole', '%s: the data handed to %s is the whole body (a read-to-end of the stream), as in %s'
                      % (da.qual, callee.name, d.name), da, call, where=da.loc(call),
                      witness=None if prov == 'whole' else ['the argument is a part of the body (a sized read / one chunk / a cut piece)'],
                      runtime_witness=_R10_WITNESS)
        # at most one parse per path
        ids = {n.id for n in cfg.live_nodes() if any(x is cl for cl in calls for x in n.walk())}
        twice = None
        for a in ids:
            nxt = [b for (b, l) in cfg.succ[a] if l != 'exc']
            reach = flow.reachable(cfg, nxt, edge_filter=flow.no_exc)
            hit = [b for b in ids if b in reach]
            if hit:
                twice = (a, hit[0])
        n_ob += 1
        run.check(twice is None, '%s: no path parses twice (one document per body)' % da.qual, da,
                  cfg.node(twice[1]).ast if twice else 'one call of %s per path' % callee.name,
                  where=da.loc(cfg.node(twice[1]).ast) if twice else da.loc(),
                  witness=None if twice is None else ['%s then %s' % (cfg.node(twice[0]).text(), cfg.node(twice[1]).text())],
                  runtime_witness=_R10_WITNESS)
    if n_ob == 0:
        raise AnchorError('no handler with a deserialize / deserialize_async pair parsing a read-to-end found')
    return n_ob
