"""C13 - multipart form parsing (DESIGN.md section 3, C13).

R1  sync and async form iterators (and the BodyPart accessor pairs) are
    event-language-equal after await-erasure / alias resolution.
R2  thresholds in normal form: buffered part size, part count, header block.
R3  nothing but the multipart parse error (a 400) escapes the iterators and
    the BodyPart accessors; DelimiterError is mapped at every stream call.
    A mapping read by a literal key counts as guarded (no KeyError) under an
    enclosing `except KeyError` (EAFP) or when a membership test of the same
    key in the same mapping dominates it - F arm of `k not in d`, T arm of
    `k in d`, earlier operand of an `and` chain / conditional expression - with
    nothing in between that can remove the key (c13_helpers
    MultipartEscape._membership_guarded; k2-c13-1).
R4  delimiter evolution: `--boundary` for the prologue, CRLF + `--boundary`
    from then on, and the same value is given to `delimit`.
R5-R7, R9 shared reader rules of C14 (delimiter never split / searched behind
    the cursor; R9 = C14 R11: minimum length of normalised ASGI chunks).
R8  parse_header splits on ';' only without quoted strings.
R10 BodyPart.name / .filename hand out exactly the parsed Content-Disposition
    parameter (effective members of both flavours; the RFC 5987 `filename*`
    decoding is the one tabled exception); `secure_filename` is the library
    sanitiser applied to `filename` itself (nothing applied in between; tabled
    fallbacks '' / None for an unset name) and its result is handed out as is.
R11 the quoted-string scan behind parse_header's slow path decides "inside a
    quoted string" by the tabled two-term quote parity; an added or dropped
    substring-count term is a violation.
R12 every test that gates the construction of the form on the boundary admits
    all RFC 2046 boundaries of 1..70 characters (regex validators by the
    min / max width of their pattern).
R13 the constructor defaults of MultipartParseOptions (part count, buffered
    part size, header block size) equal the values its attribute docstrings
    document (doc/code agreement on folded constants).
R14 get_media() drains the part stream exactly when the resolved handler's
    exhaust_stream flag is set (both flavours; R1 compares the two, R14 pins
    the common meaning).
R15, R16 shared reader rules of C14 (R8 / R9): what a delimited read hands out
    is exactly what the cursor moves over (ASGI: cursor set before the yield;
    sync: no fabricated byte, no blind cursor bump) - "independently of how much
    of each earlier part the application chose to read".
R17 the RFC 5987 extended filename (`filename*=charset'lang'value`) is refused
    by nothing but the codec: the matcher's pattern and every test on the
    charset label between the match and the decoding (own tests, the match test
    itself, helpers handed the label) admit utf-8 / iso-8859-1 in any letter
    case - evaluated on probe labels with the module constants folded.
"""

from __future__ import annotations

import ast
from typing import Dict, List, Optional, Tuple

from .. import flow
from ..cfg import cfg_of
from ..flow import ERROR
from ..model import UNKNOWN, AnchorError, Func, UnknownIdiom, attr_chain, short, walk_no_nested
from .c13_helpers import (Events, Linear, MultipartEscape, Norm, lin_add, lin_const, lin_key, lin_text, pred_text,
                          raised_class, resolve_alias)
from .common import implied, nodes_within, single, strip_await, walk_self

SYNC_MOD = 'falcon.media.multipart'
ASGI_MOD = 'falcon.asgi.multipart'
SYNC_ITER = SYNC_MOD + '.MultipartForm.__iter__'
SYNC_PART = SYNC_MOD + '.BodyPart'
ASGI_PART = ASGI_MOD + '.BodyPart'
SYNC_FORM = SYNC_MOD + '.MultipartForm'
ASGI_FORM = ASGI_MOD + '.MultipartForm'
SYNC_READER = 'falcon.util.reader.BufferedReader'
ASGI_READER = 'falcon.asgi.reader.BufferedReader'
PARSE_ERROR = 'falcon.errors.MultipartParseError'
DELIM_ERROR = 'falcon.errors.DelimiterError'
INVALID_HEADER = 'falcon.errors.HTTPInvalidHeader'
HANDLER_FORM = SYNC_MOD + '.MultipartFormHandler._deserialize_form'

# option names are public API (MultipartParseOptions)
OPT_BUFFER = 'max_body_part_buffer_size'
OPT_COUNT = 'max_body_part_count'
OPT_HEADERS = 'max_body_part_headers_size'

QUAL_MAP = {ASGI_PART: SYNC_PART}
ATTR_MAP = {'deserialize_async': 'deserialize'}


# ---------------------------------------------------------------------------
# anchors
# ---------------------------------------------------------------------------

def _async_iter(p) -> Func:
    """The async generator behind asgi.MultipartForm.__aiter__."""
    f = p.func(ASGI_FORM + '.__aiter__')
    if f.is_async and any(isinstance(n, (ast.Yield, ast.YieldFrom)) for n in walk_no_nested(f.node)):
        return f
    rets = [n for n in walk_no_nested(f.node) if isinstance(n, ast.Return) and n.value is not None]
    r = single(rets, 'return statement', f.qual)
    v = strip_await(r.value)
    if isinstance(v, ast.Call):
        t = p.resolve_callable(f, v.func)
        if isinstance(t, Func):
            return t
    raise UnknownIdiom('%s: does not return a call of a method of the form (%s)' % (f.qual, short(r.value)))


def _iterators(p) -> List[Tuple[str, Func, str]]:
    p.cls(SYNC_READER)
    p.cls(ASGI_READER)
    return [('WSGI', p.func(SYNC_ITER), SYNC_READER), ('ASGI', _async_iter(p), ASGI_READER)]


def _norm(p, f, reader=None, cls=None) -> Norm:
    rc = {}
    if reader is not None:
        rc['self._stream'] = reader
    return Norm(p, f, cls=cls, qual_map=QUAL_MAP, attr_map=ATTR_MAP, receiver_classes=rc)


def _stream_calls(p, f, nm: Norm, cfg):
    """[(cfg node, call, method name, bound-arg dict)] for calls on the form's
    reader (`self._stream`, possibly through a local bound once)."""
    out = []
    for n in cfg.live_nodes():
        if n.kind in ('entry', 'exit', 'xexit', 'join', 'handler'):
            continue
        for c in n.calls():
            if isinstance(c.func, ast.Attribute) and nm.text(c.func.value) == 'self._stream':
                out.append((n, c, c.func.attr))
    if not out:
        raise AnchorError('%s: no call on the form reader (self._stream) found' % f.qual)
    return out


class _Bound(dict):
    """Bound arguments; a parameter name of the reader API that no longer
    exists is a vanished anchor, not a crash."""

    def __init__(self, reader, meth):
        super().__init__()
        self._what = '%s.%s' % (reader, meth)

    def __missing__(self, key):
        raise AnchorError('%s has no parameter `%s`' % (self._what, key))


def _bind(p, reader: str, call: ast.Call) -> Dict[str, ast.AST]:
    """parameter name -> argument expression, by the reader's signature."""
    meth = p.lookup_method(reader, call.func.attr)
    if meth is None:
        raise AnchorError('%s has no method %s' % (reader, call.func.attr))
    pos = [a.arg for a in meth.node.args.posonlyargs + meth.node.args.args][1:]
    out = _Bound(reader, call.func.attr)
    for i, a in enumerate(call.args):
        if isinstance(a, ast.Starred) or i >= len(pos):
            raise UnknownIdiom('cannot bind arguments of %s' % short(call))
        out[pos[i]] = a
    for k in call.keywords:
        if k.arg is None:
            raise UnknownIdiom('cannot bind arguments of %s' % short(call))
        out[k.arg] = k.value
    # defaults
    a = meth.node.args
    names = [x.arg for x in a.posonlyargs + a.args]
    for name, dv in zip(names[len(names) - len(a.defaults):], a.defaults):
        out.setdefault(name, dv)
    return out


# ---------------------------------------------------------------------------
# R1 sibling equality
# ---------------------------------------------------------------------------

def _collaborator_flag(e, nm: Norm, depth=0) -> bool:
    """A read of a PUBLIC attribute of an object other than self that is not a method call (`handler.exhaust_stream`, also
    through a local bound once to it): part of that object's documented contract, so the branch it selects is protocol, not
    implementation detail."""
    called = {id(x.func) for x in ast.walk(e) if isinstance(x, ast.Call)}
    for x in ast.walk(e):
        if isinstance(x, ast.Attribute) and isinstance(x.ctx, ast.Load) and id(x) not in called and not x.attr.startswith('_'):
            ch = attr_chain(x)
            if ch is not None and len(ch) == 2 and ch[0] not in ('self', 'cls') and nm.defs.is_local(ch[0]):
                return True
        elif isinstance(x, ast.Name) and depth < 3:
            d = nm.defs.single(x.id)
            if d is not None and _collaborator_flag(d, nm, depth + 1):
                return True
    return False


def _interesting_test(nm: Norm):
    # tests against protocol literals (b'--', header names, 'text/plain') and on public flags of collaborating objects
    # (handler.exhaust_stream); plain local / self flags are implementation detail and the numeric limits are checked
    # against their normal forms, per sibling, by R2
    def keep(e, txt: str) -> bool:
        if 'self._parse_options.max_' in txt:
            return False
        return "'" in txt or _collaborator_flag(e, nm)
    return keep


def _compare(run, what, fa: Func, fb: Func, na: Norm, nb: Norm):
    p = run.project
    ea = Events(p, fa, na, _interesting_test(na))
    eb = Events(p, fb, nb, _interesting_test(nb))
    run.use_cfg(ea.cfg)
    run.use_cfg(eb.cfg)
    da, db = ea.dfa(), eb.dfa()
    run.extra.setdefault('c13_r1_dfa_states', {})[what] = {'sync': len(da.trans), 'async': len(db.trans)}
    for wd in flow.words(da, limit=2, maxlen=60):
        run.sample({'rule': 'R1', 'pair': what, 'accepted_event_trace': wd[:40]})
    diff = flow.language_diff(da, db)
    inlined_note = []
    if diff is not None:
        # the words differ as written: compare again with each side's private helpers (module-level functions of its own module /
        # methods of its own class called on self, without a suspension point) read in place of their calls - a block moved
        # verbatim into such a helper gives the word it gave inline (preserving/k4-c13-1).  The verdict is the one of this second,
        # finer comparison; the violation keeps the key of the first so that it does not depend on what was inlined.
        ia = Events(p, fa, na, inline=True, filter_factory=_interesting_test)
        ib = Events(p, fb, nb, inline=True, filter_factory=_interesting_test)
        dia, dib = ia.dfa(), ib.dfa()
        if ia.inlined or ib.inlined:
            for sub_q in sorted(set(ia.inlined + ib.inlined)):
                run.use(p.funcs[sub_q])
            diff2 = flow.language_diff(dia, dib)
            if diff2 is None:
                run.ok('%s: sync and async variants are event-language-equal once the private helpers %s are read in place of their calls '
                       '(reader calls with bound folded arguments, catch/raise classes, protocol tests, yields)' % (
                           what, ', '.join(sorted(set(ia.inlined + ib.inlined)))), '%s ~ %s' % (fa.loc(), fb.loc()), what)
                na.inline_value = nb.inline_value = None
                return
            inlined_note = ['with %s read in place the %s variant alone accepts: %s' % (
                ', '.join(sorted(set(ia.inlined + ib.inlined))), 'sync' if diff2[1] == 'left-only' else 'async', ' ; '.join(diff2[0][-8:]))]
        na.inline_value = nb.inline_value = None
    if diff is None:
        run.ok('%s: sync and async variants are event-language-equal (reader calls with bound folded arguments, '
               'catch/raise classes, protocol tests, yields)' % what, '%s ~ %s' % (fa.loc(), fb.loc()), what)
        return
    word, which = diff
    side = fa if which == 'left-only' else fb
    # locate the last labelled event on the side that owns the trace
    run.fail('%s: %s and %s differ; event trace accepted by the %s variant only: ... %s' % (
        what, fa.qual, fb.qual, 'sync' if which == 'left-only' else 'async', ' ; '.join(word[-3:])),
             side, 'event-language(%s) %s' % ('sync-only' if which == 'left-only' else 'async-only', ' ; '.join(word[-2:])),
             where=side.loc(), witness=['trace: ' + ' ; '.join(word[-12:])] + inlined_note,
             runtime_witness='a form body / consumption pattern on which the WSGI and ASGI parsers take different actions')


def r1_siblings(run):
    p = run.project
    (_, fs, rs), (_, fa, ra) = _iterators(p)
    sub = p.is_subclass(ASGI_PART, SYNC_PART)
    run.check(sub is True, 'the ASGI BodyPart derives from the WSGI BodyPart (shared header accessors)', p.cls(ASGI_PART).qual,
              'class BodyPart(%s)' % ', '.join(p.cls(ASGI_PART).bases), where=p.cls(ASGI_PART).loc())
    _compare(run, 'form iterator', fs, fa, _norm(p, fs, rs), _norm(p, fa, ra))
    # every public member of the part: methods, properties and `X = property(getter)` aliases of the WSGI flavour
    from .c13_helpers import property_alias
    members: Dict[str, str] = {}
    for cq in p.mro(SYNC_PART):
        c = p.classes.get(cq)
        if c is None:
            continue
        for name in c.methods:
            if not name.startswith('_'):
                members.setdefault(name, 'method')
        for name, val in c.attrs.items():
            if not name.startswith('_') and isinstance(val, ast.Call) and isinstance(val.func, ast.Name) and val.func.id == 'property':
                members.setdefault(name, 'alias')
    for name in ('get_data', 'get_text', 'get_media'):
        if members.get(name) != 'method':
            raise AnchorError('BodyPart.%s not found' % name)
    for name in sorted(members):
        if members[name] == 'alias':
            gs, ga = property_alias(p, SYNC_PART, name), property_alias(p, ASGI_PART, name)
            if gs is None:
                raise UnknownIdiom('%s.%s: property(...) is not given a method of the class' % (SYNC_PART, name))
            eff = p.lookup_method(ASGI_PART, gs.name)
            run.check(ga is not None and ga is eff and p.lookup_method(SYNC_PART, gs.name) is gs,
                      'BodyPart.%s is, in both flavours, a property over the flavour\'s own effective %s() (an ASGI getter that is overridden '
                      'is re-aliased)' % (name, gs.name), p.cls(ASGI_PART).qual, 'BodyPart.%s = property(%s)' % (name, gs.name),
                      where=p.cls(ASGI_PART).loc(),
                      runtime_witness='ASGI: part.%s runs the WSGI getter on the asynchronous part stream (a coroutine where bytes are expected)' % name)
            continue
        gs = p.lookup_method(SYNC_PART, name)
        ga = p.lookup_method(ASGI_PART, name)
        if gs is None or ga is None:
            raise AnchorError('BodyPart.%s not found' % name)
        if gs is ga:
            run.ok('BodyPart.%s is inherited unchanged by the ASGI flavour' % name, gs.loc(), name)
            continue
        if gs.is_property() != ga.is_property():
            run.fail('BodyPart.%s is a property in one flavour and a method in the other' % name, ga, 'BodyPart.' + name, where=ga.loc(),
                     runtime_witness='part.%s means different things on WSGI and ASGI' % name)
            continue
        _compare(run, 'BodyPart.' + name, gs, ga, _norm(p, gs, cls=p.cls(SYNC_PART)), _norm(p, ga, cls=p.cls(ASGI_PART)))


# ---------------------------------------------------------------------------
# R2 thresholds
# ---------------------------------------------------------------------------

def _opt_atom(name):
    return 'self._parse_options.' + name


def _edge_preds(lin: Linear, cfg, tnode):
    """{label: conjunct list|None} for the T/F out-edges of a test node."""
    out = {}
    for (y, l) in cfg.succ[tnode.id]:
        if l in ('T', 'F'):
            out[l] = (y, lin.conjuncts(tnode.ast, l == 'T'))
    return out


def _raises_only(p, f, cfg, start: int, cls: str, stop=()) -> bool:
    """From `start`, no normal continuation leaves without raising `cls`:
    every non-exceptional path ends in a `raise cls(...)`."""
    seen = flow.reachable(cfg, [start], edge_filter=flow.no_exc)
    if cfg.exit in seen or any(s in seen for s in stop):
        return False
    ends = [cfg.node(i) for i in seen if not any(l != 'exc' for (_y, l) in cfg.succ[i])]
    if not ends:
        return False
    for n in ends:
        if not (n.kind == 'stmt' and isinstance(n.ast, ast.Raise)):
            return False
        q = raised_class(p, f, n.ast)
        if q is None or p.is_subclass(q, cls) is not True:
            return False
    return True


def _r2_part_size(run, tag, f: Func, cls):
    p = run.project
    cfg = cfg_of(f, p)
    run.use_cfg(cfg)
    nm = _norm(p, f, cls=cls)
    lin = Linear(nm)
    L = _opt_atom(OPT_BUFFER)
    # the read that fills the buffer: a call of `read` on self.stream whose
    # result is stored
    reads = []
    for n in cfg.live_nodes():
        if n.kind == 'stmt' and isinstance(n.ast, (ast.Assign, ast.AnnAssign)):
            v = strip_await(n.ast.value) if n.ast.value is not None else None
            if isinstance(v, ast.Call) and isinstance(v.func, ast.Attribute) and v.func.attr == 'read' and nm.text(v.func.value) == 'self.stream':
                tg = n.ast.targets if isinstance(n.ast, ast.Assign) else [n.ast.target]
                reads.append((n, v, tg))
    n_read, call, targets = single(reads, 'stored `self.stream.read(...)`', f.qual)
    if len(call.args) + len(call.keywords) != 1:
        run.fail('%s: the buffering read of a body part has no size cap' % tag, f, call,
                 runtime_witness='a part larger than max_body_part_buffer_size is read into memory in full')
        return
    size = call.args[0] if call.args else call.keywords[0].value
    sf = lin.form(size)
    k = None
    if sf is not None and set(sf) <= {L, ''} and sf.get(L) == 1:
        k = sf.get('', 0)
    run.check(k is not None and k >= 1, '%s: the buffering read is capped at the configured limit plus at least one byte '
              '(an oversized part is detectable, memory use stays bounded by the option)' % tag, f, call,
              witness=['size argument normal form: %s' % (lin_text(sf) if sf is not None else 'not linear')],
              runtime_witness='a part of max_body_part_buffer_size+1 bytes is not recognised as too large / an unbounded read')
    holder = lin.atom_text(targets[0])
    lenatom = 'len(%s)' % holder
    too_large = lin_key(lin_add({lenatom: 1, L: -1}, lin_const(-1)))   # len - L - 1 >= 0
    fits = lin_key({L: 1, lenatom: -1})                                 # L - len >= 0
    tests = [n for n in cfg.live_nodes() if n.kind == 'test' and any(
        isinstance(x, ast.Call) and isinstance(x.func, ast.Name) and x.func.id == 'len' and x.args and lin.atom_text(x.args[0]) == holder
        for x in n.walk())]
    if not tests:
        raise AnchorError('%s: no test on the length of the buffered part data' % f.qual)
    ok_edges, bad_edges = [], []
    for t in tests:
        classified = False
        for l, (y, cj) in _edge_preds(lin, cfg, t).items():
            keys = [lin_key(c[1]) for c in (cj or []) if c[0] == 'ge']
            if cj is not None and len(cj) == 1 and keys == [too_large]:
                bad_edges.append((t.id, y, l))
                classified = True
            elif cj is not None and len(cj) == 1 and keys == [fits]:
                ok_edges.append((t.id, y, l))
                classified = True
        run.check(classified, '%s: a part is too large exactly when len(data) > %s (normal form len - limit - 1 >= 0)' % (tag, OPT_BUFFER),
                  f, t.ast, where='%s:%s' % (f.file, t.lineno),
                  witness=['%s edge: %s' % (l, ' and '.join(pred_text(c) for c in cj) if cj else 'not linear')
                           for l, (y, cj) in _edge_preds(lin, cfg, t).items()],
                  runtime_witness='a part of exactly max_body_part_buffer_size (or +1) bytes is accepted/rejected on the wrong side')
    for e in bad_edges:
        run.check(_raises_only(p, f, cfg, e[1], PARSE_ERROR), '%s: an oversized part raises MultipartParseError' % tag, f,
                  cfg.node(e[0]).ast, where='%s:%s' % (f.file, cfg.node(e[0]).lineno))
    if ok_edges or bad_edges:
        # after the read, the data is handed out only across a "fits" edge
        path = flow.find_path(cfg, [n_read.id], [cfg.exit], avoid_edges=ok_edges, edge_filter=flow.no_exc)
        run.check(path is None and bool(ok_edges), '%s: freshly read part data is returned only after the size test passed' % tag, f,
                  n_read.ast, witness=flow.describe_path(cfg, path) if path else None,
                  runtime_witness='get_data() returns (truncated) data of an oversized part')


def _counter(nm: Norm, lin: Linear, f):
    """The part counter: a local initialised from an expression linear in
    max_body_part_count (or a constant) and stepped by a constant."""
    C = _opt_atom(OPT_COUNT)
    cands = []
    def self_step(name, d):
        # `n = n + c` / `n = n - c` is read like `n += c` / `n -= c`
        v = d[1]
        if d[0] == 'assign' and isinstance(v, ast.BinOp) and isinstance(v.op, (ast.Add, ast.Sub)) and isinstance(v.left, ast.Name) \
                and v.left.id == name and isinstance(d[2], ast.Name):
            stmt = next((n for n in walk_no_nested(f.node) if isinstance(n, ast.Assign) and len(n.targets) == 1 and n.targets[0] is d[2]), None)
            if stmt is not None:
                return ('aug', v.op, v.right, stmt)
        return None

    for name, ds in nm.defs.defs.items():
        steps = [d for d in ds if d[0] == 'aug'] + [self_step(name, d) for d in ds if self_step(name, d) is not None]
        inits = [d for d in ds if d[0] == 'assign' and self_step(name, d) is None]
        if len(steps) != 1 or len(inits) != 1 or len(ds) != 2:
            continue
        st = lin.form(steps[0][2])
        if st is None or set(st) - {''} or not isinstance(steps[0][1], (ast.Add, ast.Sub)):
            continue
        init = lin.form(inits[0][1])
        if init is None or set(init) - {C, ''}:
            continue
        s = st.get('', 0) * (1 if isinstance(steps[0][1], ast.Add) else -1)
        cands.append((name, init, s, steps[0][3], inits[0][2]))
    return cands


def _r2_part_count(run, tag, f: Func, reader):
    p = run.project
    cfg = cfg_of(f, p)
    run.use_cfg(cfg)
    nm = _norm(p, f, reader)
    lin0 = Linear(nm)
    C = _opt_atom(OPT_COUNT)
    cands = _counter(nm, lin0, f)
    # tests that mention the option or a counter candidate
    yields = [n for n in cfg.live_nodes() if n.kind == 'stmt' and any(isinstance(x, (ast.Yield, ast.YieldFrom)) for x in n.walk())]
    y = single(yields, 'yield of a body part', f.qual)
    used = []
    for (name, init, s, augstmt, _initt) in cands:
        tests = [n for n in cfg.live_nodes() if n.kind == 'test' and any(isinstance(x, ast.Name) and x.id == name for x in n.walk())]
        if tests:
            used.append((name, init, s, augstmt, tests))
    if not used:
        raise AnchorError('%s: no part counter (local stepped by a constant and tested) found' % f.qual)
    name, init, s, augstmt, tests = single(used, 'part counter', f.qual)
    if abs(s) != 1:
        raise UnknownIdiom('%s: part counter %s steps by %d' % (f.qual, name, s))
    aug = single(cfg.nodes_for(augstmt), 'counter step node', f.qual)
    # the step runs exactly once per yielded part, before the yield
    once = (flow.dominated_by_nodes(cfg, y.id, [aug])
            and flow.find_path(cfg, [t for (t, l) in cfg.succ[y.id] if l != 'exc'], [y.id], avoid_nodes=[aug]) is None
            and flow.find_path(cfg, [t for (t, l) in cfg.succ[aug] if l != 'exc'], [aug], avoid_nodes=[y.id]) is None)
    run.check(once, '%s: the part counter is stepped exactly once per yielded part, before the yield' % tag, f, augstmt,
              runtime_witness='a form whose number of parts is miscounted against max_body_part_count')
    want = lin_key(lin_add({'n': 1, C: -1}, lin_const(-1)))      # n - C - 1 >= 0   <=>  n > C
    for t in tests:
        # value of the counter at the test, in terms of n = index of the current part
        before = flow.dominated_by_nodes(cfg, t.id, [aug]) and flow.find_path(
            cfg, [x for (x, l) in cfg.succ[y.id] if l != 'exc'], [t.id], avoid_nodes=[aug]) is None
        after = flow.find_path(cfg, [x for (x, l) in cfg.succ[aug] if l != 'exc'], [t.id], avoid_nodes=[y.id]) is None
        if before:
            val = lin_add(init, {'n': s})
        elif after:
            val = lin_add(init, lin_add({'n': s}, lin_const(-s)))
        else:
            raise UnknownIdiom('%s: counter test is neither always after nor always before the step' % f.qual)
        lin = Linear(nm, {name: val})
        edges = _edge_preds(lin, cfg, t)
        err = None
        for l, (tgt, cj) in edges.items():
            if cj is None:
                continue
            with_n = [c for c in cj if c[0] in ('ge', 'eq', 'ne') and 'n' in c[1]]
            if with_n:
                err = (l, tgt, cj, with_n)
                break
        if err is None:
            # maybe the F edge is the conjunction (if not (...) idiom) - not linear
            run.fail('%s: the part-count test is not a linear threshold on the counter' % tag, f, t.ast,
                     where='%s:%s' % (f.file, t.lineno))
            continue
        l, tgt, cj, with_n = err
        others = [c for c in cj if c not in with_n]
        thr_ok = len(with_n) == 1 and with_n[0][0] == 'ge' and lin_key(with_n[0][1]) == want
        run.check(thr_ok, '%s: the count error is raised exactly when the number of parts exceeds %s '
                  '(normal form n - limit - 1 >= 0)' % (tag, OPT_COUNT), f, t.ast, where='%s:%s' % (f.file, t.lineno),
                  witness=['error edge %s: %s' % (l, ' and '.join(pred_text(c) for c in cj))],
                  runtime_witness='a form with exactly max_body_part_count (or +1) parts is accepted/rejected on the wrong side')
        # limit != 0 : C > 0, C != 0 or truthiness of C
        zero_ok = len(others) == 1 and (
            (others[0][0] == 'ge' and lin_key(others[0][1]) == lin_key(lin_add({C: 1}, lin_const(-1))))
            or (others[0][0] == 'ne' and lin_key(others[0][1]) in (lin_key({C: 1}), lin_key({C: -1})))
            or (others[0][0] == 'truthy' and others[0][1] == C))
        run.check(zero_ok, '%s: a limit of 0 disables the part-count check (and nothing else does)' % tag, f, t.ast,
                  where='%s:%s' % (f.file, t.lineno), witness=['side conditions: %s' % ' and '.join(pred_text(c) for c in others)],
                  runtime_witness='max_body_part_count=0 rejects the first part / a positive limit is ignored')
        run.check(_raises_only(p, f, cfg, tgt, PARSE_ERROR, stop=[y.id]), '%s: exceeding the part count raises MultipartParseError' % tag,
                  f, t.ast, where='%s:%s' % (f.file, t.lineno))
        # the yield of the same iteration is only reached across the other edge
        path = flow.find_path(cfg, [x for (x, ll) in cfg.succ[aug] if ll != 'exc'] if before else [t.id], [y.id],
                              avoid_nodes=[t.id] if before else [], avoid_edges=[(t.id, yy, ll) for (yy, ll) in cfg.succ[t.id] if ll != l])
        run.check(path is None, '%s: a part is yielded only after the count test passed' % tag, f, y.ast,
                  where='%s:%s' % (f.file, y.lineno), witness=flow.describe_path(cfg, path) if path else None)


def _r2_headers(run, tag, f: Func, reader):
    p = run.project
    cfg = cfg_of(f, p)
    nm = _norm(p, f, reader)
    lin = Linear(nm)
    H = _opt_atom(OPT_HEADERS)
    found = 0
    for (n, c, meth) in _stream_calls(p, f, nm, cfg):
        if meth != 'read_until':
            continue
        b = _bind(p, reader, c)
        if nm.folded(b.get('delimiter')) != b'\r\n\r\n':
            continue
        found += 1
        sf = lin.form(b['size']) if 'size' in b else None
        run.check(sf is not None and lin_key(sf) == lin_key({H: 1}),
                  '%s: the header block read is bounded by exactly %s' % (tag, OPT_HEADERS), f, c,
                  witness=['size normal form: %s' % (lin_text(sf) if sf is not None else 'not linear')],
                  runtime_witness='a header block of max_body_part_headers_size (+/-1) bytes is accepted/rejected on the wrong side')
        run.check(nm.folded(b.get('consume_delimiter')) is True,
                  '%s: the blank line ending the header block is required (consume_delimiter=True)' % tag, f, c,
                  runtime_witness='an over-long or unterminated header block is silently truncated instead of rejected')
    if not found:
        raise AnchorError('%s: no read_until(CRLF CRLF, ...) on the form reader' % f.qual)


def r2_thresholds(run):
    p = run.project
    for tag, cq in (('WSGI', SYNC_PART), ('ASGI', ASGI_PART)):
        g = p.lookup_method(cq, 'get_data')
        if g is None:
            raise AnchorError('%s.get_data not found' % cq)
        if tag == 'ASGI' and g is p.lookup_method(SYNC_PART, 'get_data'):
            continue
        _r2_part_size(run, tag, g, p.cls(cq))
    for tag, f, reader in _iterators(p):
        _r2_part_count(run, tag, f, reader)
        _r2_headers(run, tag, f, reader)


# ---------------------------------------------------------------------------
# R3 only the parse error
# ---------------------------------------------------------------------------

def _boundary_bounds(run):
    """(lo, hi) of the validated boundary length, with the obligations of
    the validation itself.

    The length tests are read by evaluation, not by shape: every test that gates the construction of the form (exactly one
    outcome leads to it) and is a PURE length test - and/or/not over comparisons of len(boundary), or of a local bound once
    to it, with integer constants - is evaluated for every length from 0 to two past its largest constant (its outcome is
    constant beyond); the lengths it lets through must form one interval.  `not 1 <= len(b) <= 70`,
    `len(b) < 1 or len(b) > 70`, two separate one-sided tests and `n = len(b); if not 1 <= n <= 70` all read alike."""
    p = run.project
    B = _BoundaryTests(run)
    f, cfg, call, bname, ret_node = B.f, B.cfg, B.call, B.bname, B.ret_node
    lo_all, hi_all, last = 0, None, None
    for t, refusing in B.gates():
        consts = B.length_constants(t.ast)
        if consts is None:
            continue                                        # not a length test (R12 reads the others)
        top = max(consts | {0}) + 2
        adm = []
        for n in range(0, top + 1):
            v = B.outcome(t.ast, 'x' * n)
            if v is UNKNOWN:
                raise UnknownIdiom('%s: boundary length test %s' % (f.qual, short(t.ast)))
            if v is not refusing:
                adm.append(n)
        if not adm or adm != list(range(adm[0], adm[-1] + 1)):
            raise UnknownIdiom('%s: boundary length test %s lets through the lengths %s' % (f.qual, short(t.ast), adm[:8]))
        lo, hi = adm[0], (None if adm[-1] == top else adm[-1])
        in_edge, out_edge = ('F', 'T') if refusing else ('T', 'F')
        ins = flow.edges_out(cfg, t.id, in_edge)
        outs = flow.edges_out(cfg, t.id, out_edge)
        # no redefinition of the boundary between the test and the use
        redefs = [n.id for n in cfg.live_nodes() if n.kind == 'stmt' and isinstance(n.ast, (ast.Assign, ast.AugAssign, ast.AnnAssign))
                  and any(isinstance(x, ast.Name) and isinstance(x.ctx, ast.Store) and x.id == bname for x in ast.walk(n.ast))]
        clean = flow.find_path(cfg, [ins[0][1]] if ins else [], [ret_node], avoid_nodes=[]) is not None and not (
            set(redefs) & (flow.reachable(cfg, [ins[0][1]]) & flow.co_reachable(cfg, [ret_node])) if ins else True)
        run.check(bool(ins) and clean, 'the form is only constructed with a boundary whose length was validated (%s..%s)' % (
            lo, hi if hi is not None else ''), f, t.ast, where='%s:%s' % (f.file, t.lineno),
                  runtime_witness='Content-Type with an empty or over-long boundary reaches the parser')
        run.check(bool(outs) and all(_raises_only(p, f, cfg, e_[1], INVALID_HEADER) for e_ in outs),
                  'an invalid boundary length raises HTTPInvalidHeader', f, t.ast, where='%s:%s' % (f.file, t.lineno))
        # trailing whitespace is removed before the length is validated
        stripped = [n.id for n in cfg.live_nodes() if n.kind == 'stmt' and isinstance(n.ast, ast.Assign)
                    and any(isinstance(x, ast.Name) and x.id == bname for tg in n.ast.targets for x in ast.walk(tg))
                    and isinstance(n.ast.value, ast.Call) and isinstance(n.ast.value.func, ast.Attribute)
                    and n.ast.value.func.attr == 'rstrip' and not n.ast.value.args]
        run.check(bool(stripped) and flow.dominated_by_nodes(cfg, t.id, stripped),
                  'trailing white space is removed from the boundary before it is validated', f, t.ast,
                  where='%s:%s' % (f.file, t.lineno))
        lo_all = max(lo_all, lo)
        hi_all = hi if hi_all is None else (hi_all if hi is None else min(hi_all, hi))
        last = t
    if last is None or hi_all is None:
        run.fail('the form is constructed with a boundary whose length was never validated (no `lo <= len(%s) <= hi` test)' % bname,
                 f, call, runtime_witness='Content-Type: multipart/form-data; boundary= (empty) or a 10 KiB boundary reaches the parser')
        return None
    run.check((lo_all, hi_all) == (1, 70), 'the boundary must consist of 1 to 70 characters (RFC 2046 section 5.1)', f, last.ast,
              where='%s:%s' % (f.file, last.lineno))
    return (lo_all, hi_all)


def _derives_from_param_len(expr, defs, params, _seen=None) -> bool:
    """Does `expr` (through locals bound by plain assignments) contain
    len(<parameter>)?"""
    _seen = _seen or set()
    for x in ast.walk(expr):
        if isinstance(x, ast.Call) and isinstance(x.func, ast.Name) and x.func.id == 'len' and len(x.args) == 1 \
                and isinstance(x.args[0], ast.Name) and x.args[0].id in params and x.args[0].id not in ('self', 'cls'):
            return True
        if isinstance(x, ast.Name) and x.id not in _seen and x.id in defs.defs:
            for d in defs.defs[x.id]:
                if d[0] == 'assign' and _derives_from_param_len(d[1], defs, params, _seen | {x.id}):
                    return True
    return False


def _delimiter_length_exemptions(run, bounds) -> Dict[int, str]:
    """1.3(7): the readers' explicit ValueError for a delimiter longer than the
    chunk size is exempt *because* the boundary is validated to <= hi
    characters and 4 + 4*hi bytes is below every DEFAULT_CHUNK_SIZE."""
    p = run.project
    out: Dict[int, str] = {}
    if bounds is None:
        return out
    lo, hi = bounds
    sizes = {}
    n_candidates = 0
    for rq in (SYNC_READER, ASGI_READER):
        c = p.cls(rq)
        v = p.fold(c.module, ast.Name(id='DEFAULT_CHUNK_SIZE', ctx=ast.Load()))
        if not isinstance(v, int):
            raise AnchorError('%s: DEFAULT_CHUNK_SIZE is not a constant' % c.module.name)
        sizes[rq] = v
        init = p.lookup_method(rq, '__init__')
        uses_default = init is not None and any(isinstance(x, ast.Name) and x.id == 'DEFAULT_CHUNK_SIZE' for x in ast.walk(init.node))
        # raise ValueError guarded by a test that relates the length of a
        # parameter (the delimiter) to self._chunk_size; locals are followed
        # through their definitions, never identified by name
        for m in c.methods.values():
            parent = {}
            for n in ast.walk(m.node):
                for ch in ast.iter_child_nodes(n):
                    parent[id(ch)] = n
            mdefs = None
            for n in walk_no_nested(m.node):
                if not isinstance(n, ast.Raise) or n.exc is None:
                    continue
                if raised_class(p, m, n) != 'builtins.ValueError':
                    continue
                g = parent.get(id(n))
                if not (isinstance(g, ast.If) and n in g.body and any(
                        isinstance(x, ast.Attribute) and x.attr == '_chunk_size' for x in ast.walk(g.test))):
                    continue
                if mdefs is None:
                    from .c13_helpers import Defs
                    mdefs = Defs(m)
                if not _derives_from_param_len(g.test, mdefs, m.params()):
                    raise UnknownIdiom('%s: `raise ValueError` under `%s` is not recognisably a delimiter-length check' % (
                        m.qual, short(g.test)))
                n_candidates += 1
                worst = 4 + 4 * hi   # CRLF + '--' + boundary, 4 bytes per character at most
                if lo >= 1 and worst <= v and uses_default:
                    out[id(n)] = ('delimiter length check: boundary validated to %d..%d characters, '
                                  'at most %d bytes with CRLF and dashes <= DEFAULT_CHUNK_SIZE %d' % (lo, hi, worst, v))
    if n_candidates == 0:
        return out
    run.check(len(out) == n_candidates, 'delimiter-length ValueError of both readers is unreachable for a validated boundary '
              '(4 + 4*%d bytes <= chunk sizes %s)' % (hi, sorted(sizes.values())), HANDLER_FORM, 'delimiter length exemption',
              where=p.func(HANDLER_FORM).loc())
    return out


def _r3_delimiter_mapping(run, E: MultipartEscape, tag, f: Func, reader):
    p = run.project
    cfg = cfg_of(f, p)
    run.use_cfg(cfg)
    nm = _norm(p, f, reader)
    n_sites = 0
    for (n, c, meth) in _stream_calls(p, f, nm, cfg):
        target = p.lookup_method(reader, meth)
        if target is None:
            raise AnchorError('%s.%s not found' % (reader, meth))
        summ = E.summary(target, p.cls(reader))
        if DELIM_ERROR not in summ:
            continue
        n_sites += 1
        hs = [(y, cfg.node(y)) for (y, l) in cfg.succ[n.id] if l == 'exc' and cfg.node(y).kind == 'handler']
        catching = []
        for (y, hn) in hs:
            h = hn.ast
            if h.type is None:
                catching.append((y, hn))
                continue
            types = h.type.elts if isinstance(h.type, ast.Tuple) else [h.type]
            for t in types:
                q = resolve_alias(p, f.module, t, f)
                if q and p.is_subclass(DELIM_ERROR, q) is True:
                    catching.append((y, hn))
                    break
        # the innermost try that can catch it decides
        mapped = bool(catching) and _raises_only(p, f, cfg, catching[0][0], PARSE_ERROR)
        run.check(mapped, '%s: DelimiterError of reader.%s() is caught and re-raised as MultipartParseError' % (tag, meth), f, c,
                  where='%s:%s' % (f.file, n.lineno),
                  witness=['%s:%s %s' % (w, '', t) for (w, t) in summ[DELIM_ERROR][:4]],
                  runtime_witness='a truncated/garbled form body makes iteration raise DelimiterError (an OSError -> 500) instead of a 400')
    if n_sites == 0:
        raise AnchorError('%s: no reader call that can raise DelimiterError' % f.qual)


def _in_scope(where: str) -> bool:
    return where.startswith('falcon/media/multipart.py:') or where.startswith('falcon/asgi/multipart.py:')


def r3_only_parse_error(run):
    p = run.project
    run.assume('E5: str/bytes/re/dict.get methods and in-range subscripts are total; unresolved external callees '
               '(the transport read function, the configured media handler, Handlers._resolve) raise nothing the rule accounts for')
    run.assume('reading a delimited part stream (BodyPart.stream) raises only what the transport raises')
    run.assume('the pure-Python readers are analysed; falcon/cyutil/reader.pyx is not')
    pe = p.cls(PARSE_ERROR)
    run.check(p.is_subclass(PARSE_ERROR, 'falcon.errors.HTTPBadRequest') is True, 'MultipartParseError is a 400-class HTTP error',
              PARSE_ERROR, 'class MultipartParseError(%s)' % ', '.join(pe.bases), where=pe.loc())
    run.check(p.is_subclass(INVALID_HEADER, 'falcon.errors.HTTPBadRequest') is True, 'HTTPInvalidHeader is a 400-class HTTP error',
              INVALID_HEADER, 'class HTTPInvalidHeader', where=p.cls(INVALID_HEADER).loc())
    bounds = _boundary_bounds(run)
    exempt = _delimiter_length_exemptions(run, bounds)

    iters = _iterators(p)
    # local name of the reader in each iterator (declared anchor: the local bound to self._stream)
    def escape_for(reader, f=None):
        recv = {}
        if f is not None:
            for name, ds in _norm(p, f).defs.defs.items():
                if len(ds) == 1 and ds[0][0] == 'assign' and attr_chain(ds[0][1]) == ('self', '_stream'):
                    recv[name] = reader
        return MultipartEscape(p, exempt_raise_ids=exempt, receivers=recv)

    for tag, f, reader in iters:
        _r3_delimiter_mapping(run, escape_for(reader, f), tag, f, reader)

    # escape sets
    accessors = ['content_type', 'name', 'filename', 'secure_filename', 'get_text', 'get_data', 'get_media', 'data', 'text', 'media']
    entries = []   # (tag, func, selfcls, allowed, escape)
    for tag, f, reader in iters:
        entries.append((tag, f, None, {PARSE_ERROR}, escape_for(reader, f)))
    for tag, cq, reader in (('WSGI', SYNC_PART, SYNC_READER), ('ASGI', ASGI_PART, ASGI_READER)):
        E = escape_for(reader)
        seen = set()
        for a in accessors:
            g = p.lookup_method(cq, a)
            if g is None:
                from .c13_helpers import property_alias
                g = property_alias(p, cq, a)
            if g is None:
                raise AnchorError('%s.%s not found' % (cq, a))
            if g.qual in seen:
                continue
            seen.add(g.qual)
            entries.append((tag, g, p.cls(cq), {PARSE_ERROR}, E))
    entries.append(('handler', p.func(HANDLER_FORM), None, {INVALID_HEADER}, escape_for(SYNC_READER)))

    reported = set()
    for tag, f, selfcls, allowed, E0 in entries:
        run.use(f)
        site_exempt: Dict[Tuple[str, str], str] = {}
        bad_total = 0
        for _round in range(8):
            E = MultipartEscape(p, exempt_raise_ids=exempt, receivers=E0.receivers, site_exempt=dict(site_exempt))
            summ = E.summary(f, selfcls)
            new = False
            for exc, chain in sorted(summ.items()):
                q = exc
                if any(p.is_subclass(q, a) is True for a in allowed):
                    continue
                # deepest frame that still lies in the multipart modules owns the obligation
                idx = max((i for i, (w, _t) in enumerate(chain) if _in_scope(w)), default=0)
                where, text = chain[idx]
                owner, cons, is_prim = f.qual, text, False
                if (where, text) in E.prim_sites:
                    owner, cons, _node = E.prim_sites[(where, text)]
                    is_prim = True
                elif (where, text) in E.raise_sites:
                    owner = E.raise_sites[(where, text)][0]
                else:
                    owner = _owner_of(p, where) or f.qual
                    cons = text[5:] if text.startswith('call ') else text
                key = (owner, cons, exc)
                bad_total += 1
                if key not in reported:
                    reported.add(key)
                    run.fail('%s may escape (only MultipartParseError / a 400 may): %s' % (exc.split('.')[-1], text), owner, cons,
                             where=where, witness=['%s  %s' % (w, t) for (w, t) in chain],
                             runtime_witness='a part header / body crafted so that this conversion fails makes the accessor raise '
                                             '%s instead of MultipartParseError' % exc.split('.')[-1])
                if is_prim and (owner, cons) not in site_exempt:
                    site_exempt[(owner, cons)] = 'already reported'
                    new = True
            if not new:
                break
        if bad_total == 0:
            run.ok('%s %s: escape set %s is within {%s}' % (tag, f.qual, sorted(x.split('.')[-1] for x in summ),
                                                            ', '.join(sorted(a.split('.')[-1] for a in allowed))), f.loc(), f.qual)
    run.extra['c13_r3_exemptions'] = sorted(set(exempt.values()))
    _r3_mapping_handlers(run, exempt)


# conversion failures of client-controlled data: UnicodeDecodeError / UnicodeError (ValueError), unknown codec (LookupError), ...
# (a missing key / index - KeyError, IndexError, also LookupErrors - is an EAFP idiom, not a failed conversion)
def _is_conversion_failure(p, exc: str) -> bool:
    return p.is_subclass(exc, 'builtins.ValueError') is True or exc == 'builtins.LookupError'


def _part_members(p) -> List[Tuple[Func, object]]:
    """Effective member functions (public or not) of both BodyPart flavours, each once, with the class it is seen from."""
    out, seen = [], set()
    for cq in (SYNC_PART, ASGI_PART):
        for k in p.mro(cq):
            c = p.classes.get(k)
            if c is None:
                continue
            for name, m in c.methods.items():
                if p.lookup_method(cq, name) is m and m.qual not in seen:
                    seen.add(m.qual)
                    out.append((m, p.cls(cq)))
    return out


def _always_raises(p, f: Func, cfg, start: int, cls: str, depth=0) -> bool:
    """Every normal continuation from `start` ends in `raise <subclass of cls>` (directly, through a local bound once to the
    exception object, or through a statement-level call of a project function that itself never returns and raises only
    `cls`).  False when some continuation leaves normally, re-raises, or raises another class; UnknownIdiom when the class of
    a raise cannot be read."""
    seen, todo, n_raise = set(), [start], 0
    defs = None
    while todo:
        i = todo.pop()
        if i in seen:
            continue
        seen.add(i)
        if i == cfg.exit:
            return False
        n = cfg.node(i)
        if n.kind == 'stmt' and isinstance(n.ast, ast.Raise):
            if n.ast.exc is None:
                return False
            q = raised_class(p, f, n.ast)
            if (q is None or (q not in p.classes and not q.startswith('builtins.'))) and isinstance(n.ast.exc, ast.Name):
                if defs is None:
                    from .c13_helpers import Defs
                    defs = Defs(f)
                d = defs.single(n.ast.exc.id)
                if isinstance(d, ast.Call):
                    q = resolve_alias(p, f.module, d.func, f)
            if q is None or (q not in p.classes and not q.startswith('builtins.')):
                raise UnknownIdiom('%s: class of `%s` not resolved' % (f.qual, short(n.ast, 80)))
            sub = p.is_subclass(q, cls)
            if sub is None:
                raise UnknownIdiom('%s: `%s`: relation of %s to %s unknown' % (f.qual, short(n.ast, 80), q, cls))
            if sub is not True:
                return False
            n_raise += 1
            continue
        if n.kind == 'stmt' and isinstance(n.ast, ast.Expr) and isinstance(strip_await(n.ast.value), ast.Call) and depth < 2:
            t = p.callee(f, strip_await(n.ast.value))
            if isinstance(t, Func) and not any(isinstance(x, (ast.Yield, ast.YieldFrom)) for x in walk_no_nested(t.node)):
                sub_cfg = cfg_of(t, p)
                if _always_raises(p, t, sub_cfg, sub_cfg.entry, cls, depth + 1):
                    n_raise += 1
                    continue
        todo += [y for (y, l) in cfg.succ[i] if l != 'exc']
    return n_raise > 0


def _r3_mapping_handlers(run, exempt):
    """A mapping handler maps.  Every `except` arm of a BodyPart member that catches a conversion failure of client data (a
    ValueError / LookupError its `try` body can raise according to the escape analysis: strict `bytes.decode`, a codec named by
    the part, secure_filename) ends, on every normal path, in `raise MultipartParseError`: the failure is neither swallowed
    (`pass`, a fallback value, `return None`) nor turned into another class.
    W: Content-Type: text/pl\xe4in in a part -> part.content_type is None with a 200, get_text() dies with TypeError (500);
    Content-Disposition with an invalid UTF-8 byte -> part.name raises TypeError instead of the 400."""
    p = run.project
    n_obl = 0
    for m, selfcls in _part_members(p):
        tries = [t for t in walk_no_nested(m.node) if isinstance(t, ast.Try) and t.handlers]
        if not tries:
            continue
        cfg = cfg_of(m, p)
        run.use_cfg(cfg)
        for t in tries:
            E = MultipartEscape(p, exempt_raise_ids=exempt)
            body_out: Dict[str, list] = {}
            E._block(t.body, m, selfcls, [], body_out, None)
            remaining = {exc: chain for exc, chain in body_out.items() if _is_conversion_failure(p, exc)}
            for h in t.handlers:
                if h.type is None:
                    classes = None
                else:
                    classes = [resolve_alias(p, m.module, x, m) for x in (h.type.elts if isinstance(h.type, ast.Tuple) else [h.type])]
                    if any(c is None for c in classes):
                        raise UnknownIdiom('%s: exception class of `except %s` not resolved' % (m.qual, short(h.type)))
                caught = {exc: chain for exc, chain in remaining.items()
                          if classes is None or any(p.is_subclass(exc, c) is True for c in classes)}
                for exc in caught:
                    del remaining[exc]
                if not caught:
                    continue
                hn = single([n.id for n in cfg.live_nodes() if n.kind == 'handler' and n.ast is h], 'handler node', m.qual)
                n_obl += 1
                run.check(_always_raises(p, m, cfg, hn, PARSE_ERROR),
                          'a failed conversion of client-controlled part data (%s) caught in %s is re-raised as MultipartParseError on every '
                          'path: the handler neither swallows it (the accessor would go on without the value) nor raises another class' % (
                              ', '.join(sorted(x.split('.')[-1] for x in caught)), m.qual),
                          m, 'except %s' % (short(h.type) if h.type is not None else ''), where=m.loc(h),
                          witness=['%s  %s' % (w, tx) for exc in sorted(caught) for (w, tx) in caught[exc][:3]],
                          runtime_witness='a part header / body on which this conversion fails (a byte >= 0x80 in Content-Type or '
                                          'Content-Disposition, an unknown charset): the accessor returns None / a later statement raises '
                                          'TypeError (500) instead of MultipartParseError (400)')
    if n_obl == 0:
        raise AnchorError('no `except` arm of a BodyPart member catches a conversion failure of client data (F7 mapping vanished)')


def _owner_of(p, where: str) -> Optional[str]:
    file, _, line = where.rpartition(':')
    try:
        ln = int(line)
    except ValueError:
        return None
    best = None
    for f in p.funcs.values():
        if f.file == file and f.node.lineno <= ln <= getattr(f.node, 'end_lineno', f.node.lineno):
            if best is None or f.node.lineno >= best.node.lineno:
                best = f
    return best.qual if best else None


# ---------------------------------------------------------------------------
# R4 delimiter evolution
# ---------------------------------------------------------------------------

def _r4(run, tag, f: Func, reader):
    p = run.project
    cfg = cfg_of(f, p)
    run.use_cfg(cfg)
    nm = _norm(p, f, reader)
    calls = _stream_calls(p, f, nm, cfg)
    pipes = [(n, c) for (n, c, m) in calls if m == 'pipe_until']
    delims = [(n, c) for (n, c, m) in calls if m == 'delimit']
    if not pipes or not delims:
        raise AnchorError('%s: pipe_until / delimit calls on the form reader not found' % f.qual)
    exprs: List[ast.AST] = []

    def ref(e):
        exprs.append(e)
        return len(exprs) - 1

    # boolean flags: locals only ever assigned True/False
    flags = set()
    for name, ds in nm.defs.defs.items():
        if name not in nm.defs.params and ds and all(d[0] == 'assign' and isinstance(d[1], ast.Constant) and isinstance(d[1].value, bool) for d in ds):
            flags.add(name)
    # byte-string locals assigned in the function and used as delimiter
    dvars = set()
    for (_n, c) in pipes + delims:
        b = _bind(p, reader, c)
        for x in ast.walk(b['delimiter']):
            if isinstance(x, ast.Name) and len(nm.defs.defs.get(x.id, [])) > 1:
                dvars.add(x.id)

    # a local computed FROM a delimiter variable (`part_delimiter = _CRLF + delimiter`, bound once before the loop) holds the
    # value the variable had at that point: it is evaluated at its definition like the variable itself, not at its uses
    changed = True
    while changed and dvars:
        changed = False
        for name, ds in nm.defs.defs.items():
            if name in dvars or name in nm.defs.params or name in flags:
                continue
            if any(isinstance(x, ast.Name) and x.id in dvars for d in ds if len(d) > 1 and isinstance(d[1], ast.AST) for x in ast.walk(d[1])):
                dvars.add(name)
                changed = True

    labels: Dict[int, List[str]] = {}
    for n in cfg.live_nodes():
        out = []
        if n.kind == 'stmt' and isinstance(n.ast, (ast.Assign, ast.AnnAssign)) and getattr(n.ast, 'value', None) is not None:
            tg = n.ast.targets if isinstance(n.ast, ast.Assign) else [n.ast.target]
            for t in tg:
                if isinstance(t, ast.Name) and t.id in dvars:
                    out.append('SET:%s:%d' % (t.id, ref(n.ast.value)))
                elif isinstance(t, ast.Name) and t.id in flags:
                    out.append('FLAG:%s:%s' % (t.id, n.ast.value.value))
                elif any(isinstance(x, ast.Name) and x.id in dvars for x in ast.walk(t)):
                    raise UnknownIdiom('%s: delimiter variable bound by %s' % (f.qual, short(n.ast)))
        elif n.kind == 'stmt' and isinstance(n.ast, ast.AugAssign) and isinstance(n.ast.target, ast.Name) and n.ast.target.id in dvars:
            raise UnknownIdiom('%s: augmented assignment to the delimiter: %s' % (f.qual, short(n.ast)))
        for (pn, c) in pipes:
            if pn.id == n.id:
                out.append('^PIPE:%d' % ref(_bind(p, reader, c)['delimiter']))
        for (dn, c) in delims:
            if dn.id == n.id:
                out.append('^DELIMIT:%d' % ref(_bind(p, reader, c)['delimiter']))
        labels[n.id] = out

    CRLF = b'\r\n'
    # attributes of the form object are evaluated through its __init__; the
    # boundary is the constructor's 2nd argument (see _deserialize_form)
    if f.cls is None:
        raise AnchorError('%s is not a method' % f.qual)
    init = p.lookup_method(f.cls.qual, '__init__')
    if init is None or len(init.params()) < 3:
        raise AnchorError('%s.__init__(self, stream, boundary, ...) not found' % f.cls.qual)
    run.use(init)
    bparam = init.params()[2]
    inm = _norm(p, init)
    attr_cache: Dict[str, Optional[tuple]] = {}

    def init_attr(attr) -> Optional[tuple]:
        if attr not in attr_cache:
            sites = [n for n in walk_no_nested(init.node) if isinstance(n, ast.Assign) and any(
                attr_chain(t) == ('self', attr) for t in n.targets)]
            attr_cache[attr] = None
            if len(sites) == 1:
                attr_cache[attr] = ev(sites[0].value, {bparam: ('BND',)}, inm)
        return attr_cache[attr]

    def ev(e, env, nm=nm) -> Optional[tuple]:
        """symbolic byte string: tuple of bytes constants and the atom 'BND' (the boundary argument)"""
        e = strip_await(e)
        v = nm.fold(e)
        if isinstance(v, bytes):
            return (v,) if v else ()
        ch = attr_chain(e)
        if ch is not None and len(ch) == 2 and ch[0] == 'self':
            return init_attr(ch[1])
        if isinstance(e, ast.Name):
            if e.id in env:
                return env[e.id]
            d = nm.defs.single(e.id)
            if d is not None:
                return ev(d, env, nm)
            return None
        if isinstance(e, ast.BinOp) and isinstance(e.op, ast.Add):
            l, r = ev(e.left, env, nm), ev(e.right, env, nm)
            if l is None or r is None:
                return None
            parts = list(l)
            for x in r:
                if parts and isinstance(parts[-1], bytes) and isinstance(x, bytes):
                    parts[-1] = parts[-1] + x
                else:
                    parts.append(x)
            return tuple(parts)
        return None

    FIRST = (b'--', 'BND')
    LATER = (CRLF + b'--', 'BND')

    def value(k, envd):
        v = ev(exprs[k], envd)
        if v is None:
            raise UnknownIdiom('%s: cannot evaluate the delimiter expression `%s` symbolically' % (f.qual, short(exprs[k])))
        return v

    def delta(st, lab):
        env, fl, piped = st
        envd, fld = dict(env), dict(fl)
        kind, _, rest = lab.partition(':')
        if kind == 'SET':
            name, _, k = rest.partition(':')
            envd[name] = value(int(k), envd)
            return (tuple(sorted(envd.items(), key=lambda kv: kv[0])), fl, piped)
        if kind == 'FLAG':
            name, _, val = rest.partition(':')
            fld[name] = (val == 'True')
            return (env, tuple(sorted(fld.items())), piped)
        if kind == 'PIPE':
            v = value(int(rest), envd)
            if v != (FIRST if not piped else LATER):
                return ERROR
            return (env, fl, True)
        if kind == 'DELIMIT':
            v = value(int(rest), envd)
            if v != LATER:
                return ERROR
            return st
        return st

    def flag_atom(name, polarity):
        def atom(e):
            if polarity and isinstance(e, ast.Name) and e.id == name:
                return True
            if isinstance(e, ast.Compare) and len(e.ops) == 1 and isinstance(e.left, ast.Name) and e.left.id == name \
                    and isinstance(e.comparators[0], ast.Constant) and isinstance(e.comparators[0].value, bool):
                same = isinstance(e.ops[0], (ast.Is, ast.Eq))
                if not same and not isinstance(e.ops[0], (ast.IsNot, ast.NotEq)):
                    return False
                return (e.comparators[0].value == same) == polarity
            return False
        return atom

    # a test that mentions a flag must decide it on both edges, otherwise the
    # path-sensitive evaluation below would be unsound/imprecise: unknown idiom
    for n in cfg.live_nodes():
        if n.kind == 'test':
            for name in flags:
                if any(isinstance(x, ast.Name) and x.id == name for x in n.walk()):
                    for truth in (True, False):
                        a = implied(n.ast, truth, flag_atom(name, True))
                        b = implied(n.ast, truth, flag_atom(name, False))
                        if a is None and b is None:
                            raise UnknownIdiom('%s: test `%s` does not decide the flag %s on its %s edge' % (
                                f.qual, short(n.ast), name, 'true' if truth else 'false'))

    def edge_delta(st, a, b, l):
        n = cfg.node(a)
        if n.kind == 'test' and l in ('T', 'F'):
            fl = dict(st[1])
            for name, val in fl.items():
                r = implied(n.ast, l == 'T', flag_atom(name, True))
                if r is None:
                    r2 = implied(n.ast, l == 'T', flag_atom(name, False))
                    r = None if r2 is None else (not r2)
                if r is not None and r != val:
                    return None
        return st

    cex, nst, ntr = flow.typestate(cfg, lambda n: labels.get(n.id, []), delta, ((), (), False), edge_delta=edge_delta)
    run.extra.setdefault('c13_r4_typestate', {})[tag] = {'states': nst, 'transitions': ntr}
    if cex is None:
        run.ok('%s: the first pipe_until searches b"--" + boundary, every later one CRLF + b"--" + boundary, and every part '
               'stream is delimited by CRLF + b"--" + boundary (boundary = 2nd constructor argument)' % tag, f.loc(), 'delimiter evolution')
    else:
        path, st, reason = cex
        bad = cfg.node(path[-1])
        run.fail('%s: wrong delimiter value reaches the reader (%s)' % (tag, reason), f,
                 bad.ast if bad.ast is not None else bad.text(), where='%s:%s' % (f.file, bad.lineno),
                 witness=flow.describe_path(cfg, path),
                 runtime_witness='a two-part form: the second boundary (or the part stream end) is searched with the wrong delimiter, '
                                 'so part contents gain/lose CRLF or parts are merged')


def r4_delimiter(run):
    for tag, f, reader in _iterators(run.project):
        _r4(run, tag, f, reader)


# ---------------------------------------------------------------------------
# R8 parse_header: the naive ';' split is used only for lines without quotes
# ---------------------------------------------------------------------------

def r8_parse_header_fast_path(run):
    """Part names and file names come from Content-Disposition parameters,
    which may be quoted strings containing ';' (filename="a;b.txt").  The fast
    path of parse_header splits the line on every ';'; it is only correct when
    the line has no quoted string, i.e. it must be guarded by a test that the
    line contains no '"'.  W: filename="backup;2024.tar.gz" -> '"backup'."""
    p = run.project
    f = p.func('falcon.util.mediatypes.parse_header')
    cfg = cfg_of(f, p)
    run.use_cfg(cfg)
    param = f.params()[0]
    # names derived from the parameter by split/partition (the pieces)
    naive = []
    for n in cfg.live_nodes():
        for c in n.calls():
            if isinstance(c.func, ast.Attribute) and c.func.attr in ('split', 'partition', 'rsplit') and c.args \
                    and isinstance(c.args[0], ast.Constant) and c.args[0].value == ';':
                naive.append((n, c))
    if not naive:
        raise AnchorError('parse_header: no split/partition on ";" (fast path) found')

    def no_quote(e):
        return (isinstance(e, ast.Compare) and len(e.ops) == 1 and isinstance(e.ops[0], ast.NotIn)
                and isinstance(e.left, ast.Constant) and e.left.value == '"' and isinstance(e.comparators[0], ast.Name)
                and e.comparators[0].id == param)

    def has_quote(e):
        return (isinstance(e, ast.Compare) and len(e.ops) == 1 and isinstance(e.ops[0], ast.In)
                and isinstance(e.left, ast.Constant) and e.left.value == '"' and isinstance(e.comparators[0], ast.Name)
                and e.comparators[0].id == param)

    safe_edges = []
    for t in cfg.live_nodes():
        if t.kind != 'test':
            continue
        for (y, l) in cfg.succ[t.id]:
            if l not in ('T', 'F'):
                continue
            r1 = implied(t.ast, l == 'T', no_quote)
            r2 = implied(t.ast, l == 'T', has_quote)
            if r1 is True or r2 is False:
                safe_edges.append((t.id, y, l))
    for (n, c) in naive:
        ok = any(flow.dominated_by_edge(cfg, n.id, e) for e in safe_edges)
        run.check(ok, 'parse_header splits on every ";" only on a path where the line is known to contain no double quote', f, c,
                  where=f.loc(c), runtime_witness='Content-Disposition: form-data; name="f"; filename="backup;2024-01-01.tar.gz" -> filename \'"backup\'')


# ---------------------------------------------------------------------------
# R10 name / filename are exactly the parsed Content-Disposition parameters
# ---------------------------------------------------------------------------

PARSE_HEADER = 'falcon.util.mediatypes.parse_header'
CD_HEADER = b'content-disposition'
_UTF8 = ('utf-8', 'utf8', 'utf_8', 'u8')
# str methods that do not change which codec `bytes.decode(<label>)` finds: the codec registry folds the letter case of the label itself
_CODEC_NEUTRAL = ('lower', 'upper', 'casefold')


def _strip_codec_neutral(e):
    """(<inner expression>, [fold names, innermost first]) of `<inner>.lower()` ... chains"""
    names = []
    while isinstance(e, ast.Call) and isinstance(e.func, ast.Attribute) and e.func.attr in _CODEC_NEUTRAL and not e.args and not e.keywords:
        names.append(e.func.attr)
        e = e.func.value
    return e, names[::-1]
# accessor -> Content-Disposition parameter it reports (RFC 7578 section 4.2); extended = RFC 5987 `<param>*` form is honoured
_PARAM_ACCESSORS = (('name', 'name', False), ('filename', 'filename', True))
# the one documented decoding of a parameter value (filename* only): frozen shape, see _rfc5987_shape
_EXTENDED_DECODING = "unquote_to_bytes(<group 2>).decode(<group 1>) of <compiled regex>.match(params.get('<param>*', <str>)), on the branch where it matched"


class _ExactParam:
    """Where does the value an accessor returns come from?  Flow-insensitive def-use inside the accessor: returned
    attribute -> its stores in the accessor -> locals -> terminal expressions; each terminal must be the bare parameter
    read (or the tabled RFC 5987 decoding)."""

    def __init__(self, run, f: Func, cls, key: str, extended: bool):
        self.run, self.p, self.f, self.cls, self.key, self.extended = run, run.project, f, cls, key, extended
        from .c13_helpers import Defs
        self.Defs = Defs
        self.defs = Defs(f)
        self.records: List[tuple] = []       # (ok, what, func, construct, runtime witness)
        self.parsers: List[str] = []
        self.ext: List[dict] = []            # the recognised RFC 5987 decodings (read by R17)

    # ------------------------------------------------------------ def-use
    def stores(self, f: Func, attr: str) -> List[ast.AST]:
        out, direct = [], set()
        for n in walk_no_nested(f.node):
            if isinstance(n, ast.Assign):
                for t in n.targets:
                    if attr_chain(t) == ('self', attr):
                        out.append(n.value)
                        direct.add(id(t))
            elif isinstance(n, ast.AnnAssign) and attr_chain(n.target) == ('self', attr):
                direct.add(id(n.target))
                if n.value is not None:
                    out.append(n.value)
        for n in walk_no_nested(f.node):
            if isinstance(n, ast.Attribute) and isinstance(n.ctx, (ast.Store, ast.Del)) and attr_chain(n) == ('self', attr) and id(n) not in direct:
                raise UnknownIdiom('%s: `self.%s` is bound by a construct the rule does not read' % (f.qual, attr))
        return out

    def terminals(self, e, f: Func, defs, seen=()) -> List[ast.AST]:
        e = strip_await(e)
        ch = attr_chain(e)
        if ch is not None and len(ch) == 2 and ch[0] == 'self':
            if ch in seen:
                return []
            st = self.stores(f, ch[1])
            if not st:
                raise UnknownIdiom('%s: returns / reads self.%s, which it never stores' % (f.qual, ch[1]))
            return [t for v in st for t in self.terminals(v, f, defs, seen + (ch,))]
        if isinstance(e, ast.Name) and e.id in defs.defs and e.id not in defs.params:
            if ('n', e.id) in seen:
                return []
            out = []
            for d in defs.defs[e.id]:
                if d[0] != 'assign':
                    return [e]                  # bound by unpacking / a loop / ...: a terminal of its own
                out += self.terminals(d[1], f, defs, seen + (('n', e.id),))
            return out
        return [e]

    # --------------------------------------------- the parameter dictionary
    def is_cd_value(self, e, f: Func, defs, depth=0) -> bool:
        """`e` is the (type, params) pair parse_header returned for the part's Content-Disposition."""
        e = strip_await(e)
        if depth > 6:
            return False
        ch = attr_chain(e)
        if ch is not None and len(ch) == 2 and ch[0] == 'self':
            return self.cd_attr(ch[1])
        if isinstance(e, ast.Name) and e.id not in defs.params:
            ds = defs.defs.get(e.id, [])
            return bool(ds) and all(d[0] == 'assign' and self.is_cd_value(d[1], f, defs, depth + 1) for d in ds)
        if isinstance(e, ast.Call):
            return self.cd_call(e, f)
        return False

    def cd_call(self, call: ast.Call, f: Func) -> bool:
        if not (isinstance(call.func, ast.Attribute) and attr_chain(call.func.value) == ('self',) and not call.args and not call.keywords):
            t = self.p.callee(f, call)
            return isinstance(t, Func) and t.qual == PARSE_HEADER and self.parse_header_call(call, f, self.Defs(f))
        h = self.p.lookup_method(self.cls.qual, call.func.attr)
        if h is None:
            return False
        return self.cd_parser(h)

    def cd_attr(self, attr: str) -> bool:
        """Every store of self.<attr> in the class hierarchy is None or the parsed Content-Disposition."""
        key = (self.cls.qual, attr)
        memo = self.__dict__.setdefault('_memo_attr', {})
        if key in memo:
            return memo[key]
        memo[key] = True        # (cycle guard)
        n, ok = 0, True
        for cq in self.p.mro(self.cls.qual):
            c = self.p.classes.get(cq)
            if c is None:
                continue
            for m in c.methods.values():
                if self.p.lookup_method(self.cls.qual, m.name) is not m:
                    continue        # overridden: not an effective member
                for v in self.stores(m, attr):
                    if isinstance(v, ast.Constant) and v.value is None:
                        continue
                    n += 1
                    mdefs = self.Defs(m)
                    good = self.is_cd_value(v, m, mdefs, 1) and attr_chain(strip_await(v)) != ('self', attr)
                    if not good:
                        wraps = any(isinstance(x, ast.Call) and x is not v and self._safe_cd_call(x, m) for x in ast.walk(v))
                        if not wraps:
                            raise UnknownIdiom('%s: `self.%s = %s` is not recognisably the parsed Content-Disposition header' % (m.qual, attr, short(v)))
                        self.records.append((False, 'the cached Content-Disposition is exactly what parse_header returned for the header '
                                             '(nothing rewrites the parameters in between)', m, v,
                                             'Content-Disposition: form-data; name="discount%22" comes back with an altered name / filename'))
        if n == 0:
            ok = False
        memo[key] = ok              # recognised; a departure from the clause is in self.records
        return ok

    def _safe_cd_call(self, call, f) -> bool:
        try:
            return self.cd_call(call, f)
        except UnknownIdiom:
            return False

    def cd_parser(self, h: Func) -> bool:
        """`h` returns, on every return, parse_header(<Content-Disposition header value>.decode(<UTF-8>))."""
        memo = self.__dict__.setdefault('_memo_parser', {})
        if h.qual in memo:
            return memo[h.qual]
        memo[h.qual] = False
        hdefs = self.Defs(h)
        rets = [n for n in walk_no_nested(h.node) if isinstance(n, ast.Return) and n.value is not None]
        if not rets:
            return False
        ok = True
        for r in rets:
            for t in self.terminals(r.value, h, hdefs):
                good = isinstance(t, ast.Call) and isinstance(self.p.callee(h, t), Func) and self.p.callee(h, t).qual == PARSE_HEADER \
                    and self.parse_header_call(t, h, hdefs)
                if not good and isinstance(t, ast.Call) and isinstance(t.func, ast.Attribute) and attr_chain(t.func.value) == ('self',) \
                        and not t.args and not t.keywords:
                    # hands on what another argument-less method of the same class parsed (same object)
                    h2 = self.p.lookup_method(self.cls.qual, t.func.attr)
                    if h2 is not None and h2 is not h and not h2.is_property() and self.cd_parser(h2):
                        continue
                if not good:
                    def is_ph(x):
                        return isinstance(x, ast.Call) and isinstance(self.p.callee(h, x), Func) and self.p.callee(h, x).qual == PARSE_HEADER

                    inner = [x for x in ast.walk(t) if x is not t and is_ph(x)]
                    # ... or locals bound (assigned / unpacked) from a parse_header call
                    inner += [x for x in ast.walk(t) if isinstance(x, ast.Name) and any(
                        any(is_ph(y) for y in ast.walk(d[1] if d[0] == 'assign' else d[2])) for d in hdefs.defs.get(x.id, []) if d[0] in ('assign', 'unpack'))]
                    if not inner:
                        raise UnknownIdiom('%s: returns `%s`, which is not a call of parse_header' % (h.qual, short(t)))
                    self.records.append((False, 'the part\'s Content-Disposition parameters are exactly what parse_header returns for the header value '
                                         '(no post-processing of the parameter values)', h, t,
                                         'Content-Disposition: form-data; name="discount%22" comes back with an altered name / filename'))
                    ok = False
                else:
                    self.records.append((True, 'the part\'s Content-Disposition parameters are exactly what parse_header returns for the decoded header value',
                                         h, t, 'Content-Disposition: form-data; name="discount%22" comes back with an altered name / filename'))
        self.run.use(h)
        if h.qual not in self.parsers:
            self.parsers.append(h.qual)
        memo[h.qual] = True         # recognised; a departure from the clause is in self.records
        return True

    def parse_header_call(self, call: ast.Call, h: Func, hdefs) -> bool:
        """parse_header(<X>.decode([utf-8[, errors]])) with X the part's Content-Disposition header bytes."""
        if len(call.args) != 1 or call.keywords:
            raise UnknownIdiom('%s: arguments of `%s` not understood' % (h.qual, short(call)))
        args = self.terminals(call.args[0], h, hdefs)
        for a in args:
            if not (isinstance(a, ast.Call) and isinstance(a.func, ast.Attribute) and a.func.attr == 'decode'):
                raise UnknownIdiom('%s: parse_header is given `%s`, not a decoded header value' % (h.qual, short(a)))
            codec = a.args[0] if a.args else next((k.value for k in a.keywords if k.arg == 'encoding'), None)
            if codec is not None:
                cv = self.p.fold(h.module, codec, func=h)
                if not isinstance(cv, str):
                    raise UnknownIdiom('%s: codec of `%s` is not a constant' % (h.qual, short(a)))
                self.records.append((cv.lower().replace('-', '_') in [u.replace('-', '_') for u in _UTF8],
                                     'the Content-Disposition header value is decoded as UTF-8 (RFC 7578 section 5.1: names and file names are '
                                     'sent in the form charset, UTF-8 by default)', h, a,
                                     'a part named "naïve" comes back with a different name (or is rejected)'))
            for src in self.terminals(a.func.value, h, hdefs):
                if not self.is_cd_header_read(src):
                    raise UnknownIdiom('%s: `%s` is not recognisably the Content-Disposition header of the part' % (h.qual, short(src)))
        return True

    def is_cd_header_read(self, e) -> bool:
        e = strip_await(e)
        if isinstance(e, ast.Call) and isinstance(e.func, ast.Attribute) and e.func.attr == 'get' and e.args:
            recv, k = e.func.value, e.args[0]
        elif isinstance(e, ast.Subscript):
            recv, k = e.value, e.slice
        else:
            return False
        return attr_chain(recv) is not None and attr_chain(recv)[0] == 'self' and isinstance(k, ast.Constant) and k.value == CD_HEADER

    def is_params(self, e, f: Func, defs, depth=0) -> bool:
        """`e` is the parameter dictionary (element 1) of the parsed Content-Disposition."""
        e = strip_await(e)
        if depth > 6:
            return False
        if isinstance(e, ast.Subscript) and isinstance(e.slice, ast.Constant) and e.slice.value == 1:
            return self.is_cd_value(e.value, f, defs, depth + 1)
        if isinstance(e, ast.Call) and isinstance(e.func, ast.Attribute) and attr_chain(e.func.value) == ('self',) and not e.args and not e.keywords:
            # an argument-less method of the same class called on `self` (the same part): its summary is inlined
            h = self.p.lookup_method(self.cls.qual, e.func.attr)
            return h is not None and not h.is_property() and self.params_helper(h, depth + 1)
        if isinstance(e, ast.Name) and e.id not in defs.params:
            ds = defs.defs.get(e.id, [])
            if not ds:
                return False
            for d in ds:
                if d[0] == 'unpack':
                    if not (d[1] == 1 and len(d[3].elts) == 2 and not any(isinstance(x, ast.Starred) for x in d[3].elts)
                            and self.is_cd_value(d[2], f, defs, depth + 1)):
                        return False
                elif d[0] == 'assign':
                    if not self.is_params(d[1], f, defs, depth + 1):
                        return False
                else:
                    return False
            return True
        return False

    _DICT_MUTATORS = ('update', 'pop', 'popitem', 'setdefault', 'clear', '__setitem__', '__delitem__')

    def params_helper(self, h: Func, depth=0) -> bool:
        """`h` (a method of the part class, called without arguments on `self`) hands back, on every return, the parameter
        dictionary of the parsed Content-Disposition (provenance read inside `h` with the same rules) and does not
        write into it."""
        memo = self.__dict__.setdefault('_memo_params_helper', {})
        if h.qual in memo:
            return memo[h.qual]
        memo[h.qual] = False        # (cycle guard)
        a = h.node.args
        if len(a.posonlyargs + a.args) != 1 or a.vararg or a.kwarg or a.kwonlyargs or h.nested:
            return False
        hdefs = self.Defs(h)
        rets = [n for n in walk_no_nested(h.node) if isinstance(n, ast.Return)]
        if not rets or any(r.value is None for r in rets):
            return False
        if not all(self.is_params(r.value, h, hdefs, depth + 1) for r in rets):
            return False
        for n in walk_no_nested(h.node):
            tgt = None
            if isinstance(n, ast.Subscript) and isinstance(n.ctx, (ast.Store, ast.Del)):
                tgt = n.value
            elif isinstance(n, ast.Call) and isinstance(n.func, ast.Attribute) and n.func.attr in self._DICT_MUTATORS:
                tgt = n.func.value
            if tgt is not None and self.is_params(tgt, h, hdefs, depth + 1):
                raise UnknownIdiom('%s: writes into the parsed Content-Disposition parameters (`%s`)' % (h.qual, short(n)))
        self.run.use(h)
        memo[h.qual] = True
        return True

    def param_read(self, e, f: Func, defs):
        """(key, default expr|None) when `e` is `<params>.get(<const>[, default])` / `<params>[<const>]`, else None."""
        e = strip_await(e)
        if isinstance(e, ast.Call) and isinstance(e.func, ast.Attribute) and e.func.attr == 'get' and 1 <= len(e.args) <= 2 and not e.keywords \
                and isinstance(e.args[0], ast.Constant) and isinstance(e.args[0].value, str) and self.is_params(e.func.value, f, defs):
            return e.args[0].value, (e.args[1] if len(e.args) == 2 else None)
        if isinstance(e, ast.Subscript) and isinstance(e.slice, ast.Constant) and isinstance(e.slice.value, str) and self.is_params(e.value, f, defs):
            return e.slice.value, ast.Constant(value=Ellipsis)
        return None

    def is_raw(self, e) -> bool:
        r = self.param_read(e, self.f, self.defs)
        return r is not None and r[0] == self.key and (r[1] is None or (isinstance(r[1], ast.Constant) and r[1].value is None))

    def inherited(self, e) -> Optional[Func]:
        """`super().<this accessor>`: the accessor of the next class in the MRO (analysed in its own right)."""
        e = strip_await(e)
        if isinstance(e, ast.Attribute) and e.attr == self.f.name and isinstance(e.value, ast.Call) and isinstance(e.value.func, ast.Name) \
                and e.value.func.id == 'super' and not e.value.args and self.f.cls is not None:
            return self.p.lookup_method(self.cls.qual, self.f.name, after=self.f.cls.qual)
        return None

    def mentions_param(self, e, seen=()) -> bool:
        """Does `e` contain (directly or through locals) a read of a Content-Disposition parameter / the inherited accessor?"""
        for x in ast.walk(e):
            if self.param_read(x, self.f, self.defs) is not None or self.inherited(x) is not None:
                return True
            if isinstance(x, ast.Name) and x.id not in seen and x.id not in self.defs.params:
                for d in self.defs.defs.get(x.id, []):
                    src = d[1] if d[0] == 'assign' else (d[2] if d[0] == 'unpack' else None)
                    if isinstance(src, ast.AST) and self.mentions_param(src, seen + (x.id,)):
                        return True
        return False

    # --------------------------------------------- the tabled RFC 5987 decoding
    def _rfc5987_shape(self, t) -> Optional[str]:
        """None when `t` is the tabled decoding of `<key>*`; else the reason it is not."""
        f, defs = self.f, self.defs
        if not (isinstance(t, ast.Call) and isinstance(t.func, ast.Attribute) and t.func.attr == 'decode' and len(t.args) == 1 and not t.keywords
                and isinstance(t.func.value, ast.Call) and len(t.func.value.args) == 1 and not t.func.value.keywords):
            return 'not <unquote>(<raw>).decode(<charset>)'
        uq = self.p.callee(f, t.func.value)
        uq = uq if isinstance(uq, str) else getattr(uq, 'qual', None)
        if uq != 'urllib.parse.unquote_to_bytes':
            return 'the percent-decoder is %s, not urllib.parse.unquote_to_bytes' % uq
        raw, cs = t.func.value.args[0], t.args[0]
        cs, _at_use = _strip_codec_neutral(cs)       # `.decode(charset.lower())`: same codec (the registry folds the case itself)
        if not (isinstance(raw, ast.Name) and isinstance(cs, ast.Name)):
            return 'raw value / charset are not locals'
        dr, dc = defs.defs.get(raw.id, []), defs.defs.get(cs.id, [])
        # `charset = charset.lower()`: a case-folding rebinding of the label is the same label for the codec
        rebinds = []
        for d_ in dc:
            if d_[0] == 'assign':
                inner, names = _strip_codec_neutral(d_[1])
                if names and isinstance(inner, ast.Name) and inner.id == cs.id:
                    rebinds.append((d_[2], names))
        dc = [d_ for d_ in dc if not any(d_[2] is r[0] for r in rebinds if d_[0] == 'assign')]
        if not (len(dr) == 1 and len(dc) == 1 and dr[0][0] == 'unpack' and dc[0][0] == 'unpack' and dr[0][2] is dc[0][2] and len(dr[0][3].elts) == 2):
            return 'raw value and charset are not unpacked from one two-element value'
        if (dc[0][1], dr[0][1]) != (0, 1):
            return 'charset is group %d and the raw value group %d of the match (RFC 5987: charset\'language\'value)' % (dc[0][1] + 1, dr[0][1] + 1)
        g = strip_await(dr[0][2])
        if not (isinstance(g, ast.Call) and isinstance(g.func, ast.Attribute) and g.func.attr == 'groups' and not g.args and isinstance(g.func.value, ast.Name)):
            return 'the two values are not <match>.groups()'
        mname = g.func.value.id
        m = defs.single(mname)
        if not (isinstance(m, ast.Call) and isinstance(m.func, ast.Attribute) and m.func.attr in ('match', 'fullmatch') and len(m.args) == 1 and not m.keywords):
            return '`%s` is not bound once to <regex>.match(<value>)' % mname
        rq = self.p.resolve_expr(f.module, m.func.value, f)
        rx = None
        if rq:
            head, _, tail = rq.rpartition('.')
            mod = self.p.modules.get(head)
            rx = mod.consts.get(tail) if mod is not None else None
        if not (isinstance(rx, ast.Call) and self.p.resolve_expr(f.module, rx.func) == 're.compile' and rx.args
                and isinstance(self.p.fold(f.module, rx.args[0]), str)):
            return 'the matcher `%s` is not a module-level compiled regular expression' % short(m.func.value)
        rd = self.param_read(m.args[0], f, defs)
        if rd is None or rd[0] != self.key + '*' or not (isinstance(rd[1], ast.Constant) and isinstance(rd[1].value, str)):
            return 'the matched text is not <params>.get(%r, <str>)' % (self.key + '*')
        # the decoding is used only where the extended parameter matched
        cfg = cfg_of(f, self.p)
        self.run.use_cfg(cfg)
        sites = [n for n in cfg.live_nodes() if n.kind == 'stmt' and any(x is t for x in n.walk())]
        if not sites:
            return 'store of the decoded value not found in the control-flow graph'

        def the_m(x):           # `m`, `(m := <the one binding of m>)` (an assignment expression in the test itself; k4-c13-3)
            return (isinstance(x, ast.Name) and x.id == mname) or (
                isinstance(x, ast.NamedExpr) and isinstance(x.target, ast.Name) and x.target.id == mname and x.value is m)

        def none_cmp(x, ops):
            return (isinstance(x, ast.Compare) and len(x.ops) == 1 and isinstance(x.ops[0], ops) and the_m(x.left)
                    and isinstance(x.comparators[0], ast.Constant) and x.comparators[0].value is None)

        def is_m(x):            # `m`, `m is not None`
            return the_m(x) or none_cmp(x, (ast.IsNot, ast.NotEq))

        def is_no_m(x):         # `m is None`
            return none_cmp(x, (ast.Is, ast.Eq))

        edges = []
        for tn in cfg.live_nodes():
            if tn.kind == 'test':
                for (y, l) in cfg.succ[tn.id]:
                    if l in ('T', 'F') and (implied(tn.ast, l == 'T', is_m) is True or implied(tn.ast, l == 'T', is_no_m) is False):
                        edges.append((tn.id, y, l))
        if not all(any(flow.dominated_by_edge(cfg, s.id, e) for e in edges) for s in sites):
            return 'not dominated by a test that the extended parameter matched'
        self.table_rx = self.p.fold(f.module, rx.args[0])
        if not any(x['decode'] is t for x in self.ext):
            self.ext.append({'func': f, 'defs': defs, 'decode': t, 'label': cs.id, 'rebinds': rebinds, 'match': mname, 'method': m.func.attr, 'sites': [s.id for s in sites],
                             'edges': edges, 'regex': rx, 'regex_module': mod, 'pattern': self.table_rx})
        return None

    # ------------------------------------------------------------ verdicts
    def analyse(self):
        f = self.f
        rets = [n for n in walk_no_nested(f.node) if isinstance(n, ast.Return) and n.value is not None]
        if not rets:
            raise AnchorError('%s returns nothing' % f.qual)
        terms, seen = [], set()
        for r in rets:
            for t in self.terminals(r.value, f, self.defs):
                if id(t) not in seen:
                    seen.add(id(t))
                    terms.append(t)
        n_raw = 0
        rw = ('Content-Disposition: form-data; name="discount%%22"; filename="rate%%0Apct.txt" (sent literally by a non-browser encoder): '
              'part.%s differs from the encoded %s' % (f.name, self.key))
        for t in terms:
            parent = self.inherited(t)
            if parent is not None:
                sub = _ExactParam(self.run, parent, self.cls, self.key, self.extended)
                self.run.use(parent)
                for q in sub.analyse():
                    if q not in self.parsers:
                        self.parsers.append(q)
                self.records += sub.records
                self.ext += [x for x in sub.ext if not any(y['decode'] is x['decode'] for y in self.ext)]
                self.table_rx = getattr(sub, 'table_rx', getattr(self, 'table_rx', None))
                n_raw += 1
                self.records.append((True, 'BodyPart.%s hands out the value of the inherited accessor unchanged' % f.name, f, t, rw))
                continue
            if self.is_raw(t):
                n_raw += 1
                self.records.append((True, 'BodyPart.%s is exactly the `%s` parameter of the parsed Content-Disposition header' % (f.name, self.key), f, t, rw))
                continue
            if self.extended:
                why = self._rfc5987_shape(t)
                what5987 = 'BodyPart.%s: the RFC 5987 extended parameter `%s*` is decoded as documented (%s)' % (f.name, self.key, _EXTENDED_DECODING)
                rw5987 = "filename*=UTF-8''na%C3%AFve.txt comes back as something other than 'naïve.txt'"
                if why is None:
                    self.records.append((True, what5987, f, t, rw5987))
                    continue
                if why.startswith('charset is group'):
                    self.records.append((False, what5987 + ': ' + why, f, t, rw5987))
                    continue
                if any(isinstance(x, ast.Call) and x is not t and self._rfc5987_shape(x) is None for x in ast.walk(t)):
                    self.records.append((False, what5987 + ': something else is applied to the decoded value', f, t, rw5987))
                    continue
            reads = self.mentions_param(t)
            own = self.param_read(t, f, self.defs)
            if own is not None:
                self.records.append((False, 'BodyPart.%s reports the `%s` parameter (it reads %r%s)' % (
                    f.name, self.key, own[0], '' if own[1] is None else ' with a default'), f, t, rw))
                continue
            if not reads:
                raise UnknownIdiom('%s: the value `%s` is not derived from a parameter of the parsed Content-Disposition in a way the rule reads' % (
                    f.qual, short(t)))
            self.records.append((False, 'BodyPart.%s is exactly the `%s` parameter of the parsed Content-Disposition header: nothing is applied to the '
                                 'value between the parameter read and the store / return%s' % (
                                     f.name, self.key, ' (only the tabled RFC 5987 decoding of `%s*`)' % self.key if self.extended else ''), f, t, rw))
        if n_raw == 0 and not any(not r[0] for r in self.records):
            raise AnchorError('%s: no plain read of the `%s` parameter' % (f.qual, self.key))
        return tuple(self.parsers)


def r10_exact_names(run):
    """Each part comes back with exactly the encoded name and filename: the accessors hand out the parsed
    Content-Disposition parameter unchanged (effective members of both BodyPart flavours)."""
    p = run.project
    run.assume('C13 R10: parse_header (falcon.util.mediatypes) is the parser of the Content-Disposition header (its quoted-string handling is '
               'C13 R8 / C11); the only decoding applied to a parameter afterwards is the tabled RFC 5987 form of filename*: ' + _EXTENDED_DECODING)
    emitted = {}
    for tag, cq in (('WSGI', SYNC_PART), ('ASGI', ASGI_PART)):
        cls = p.cls(cq)
        for acc, key, extended in _PARAM_ACCESSORS:
            g = p.lookup_method(cq, acc)
            if g is None:
                from .c13_helpers import property_alias
                g = property_alias(p, cq, acc)
            if g is None:
                raise AnchorError('%s.%s not found' % (cq, acc))
            run.use(g)
            an = _ExactParam(run, g, cls, key, extended)
            sig = (g.qual, an.analyse())
            if sig in emitted:
                run.ok('%s BodyPart.%s (and the Content-Disposition parser behind it) is inherited unchanged from the %s flavour' % (
                    tag, acc, emitted[sig]), g.loc(), '%s.%s' % (cq, acc))
                continue
            emitted[sig] = tag
            done = set()
            for ok, what, fn, cons, rw in an.records:
                k = (fn.qual, ast.dump(cons) if isinstance(cons, ast.AST) else cons, what)
                if k in done:
                    continue
                done.add(k)
                run.check(ok, '%s %s' % (tag, what), fn, cons, where=fn.loc(cons) if isinstance(cons, ast.AST) else fn.loc(), runtime_witness=rw)
            if getattr(an, 'table_rx', None) is not None:
                run.sample({'rule': 'R10', 'accessor': g.qual, 'extended parameter': key + '*', 'pattern': an.table_rx, 'decoding': _EXTENDED_DECODING})
    _r10_secure_filename(run)


# R10 (continued, added after seeded change s9-c13-3): `secure_filename` is the library sanitiser applied to
# `filename` ITSELF.  Provenance of the sanitiser's argument: through locals, `or` operands and the branches of a
# conditional expression that tests the value itself, every terminal is the read of the part's `filename` accessor
# (whose own provenance is decided above) or the tabled fallback for an unset name; a terminal that contains the
# read under anything else (`.strip()`, `.lower()`, a slice, `os.path.basename(...)`, an f-string) alters the name
# the sanitiser was documented to see.  Likewise the sanitiser's result is returned as it is.
SANITISER = 'falcon.util.misc.secure_filename'
SANITISER_SOURCE = 'filename'
# constant stand-ins for an unset filename, with the reason they are the same thing
_SECURE_FALLBACK = {'': 'unset / empty name: the sanitiser refuses the empty string with the ValueError the accessor maps to the parse error',
                    None: 'unset name passed on as it is: the sanitiser refuses every false value the same way as the empty string'}


def _r10_secure_filename(run):
    """BodyPart.secure_filename == misc.secure_filename(<filename, unchanged>) for both flavours.
    Runtime witness: filename=' a.txt' -> '_a.txt' (every non-portable character, leading / trailing blanks included, becomes '_');
    with `.strip()` before the sanitiser it is 'a.txt', and a name of blanks only raises instead of giving '__'."""
    from .c13_helpers import Defs, property_alias
    p = run.project
    rw = ("filename=' a.txt' -> secure_filename 'a.txt' instead of '_a.txt'; filename='  ' -> MultipartParseError instead of '__'")
    seen = {}
    for tag, cq in (('WSGI', SYNC_PART), ('ASGI', ASGI_PART)):
        g = p.lookup_method(cq, 'secure_filename') or property_alias(p, cq, 'secure_filename')
        if g is None:
            raise AnchorError('%s.secure_filename not found' % cq)
        src = p.lookup_method(cq, SANITISER_SOURCE) or property_alias(p, cq, SANITISER_SOURCE)
        if src is None or not src.is_property():
            raise AnchorError('%s.%s is not a property' % (cq, SANITISER_SOURCE))
        if g.qual in seen:
            run.ok('%s BodyPart.secure_filename is inherited unchanged from the %s flavour' % (tag, seen[g.qual]), g.loc(), '%s.secure_filename' % cq)
            continue
        seen[g.qual] = tag
        run.use(g)
        defs = Defs(g)

        def is_sanitiser(x):
            if not isinstance(x, ast.Call):
                return False
            t = p.callee(g, x)
            return isinstance(t, Func) and t.qual == SANITISER

        def is_source(e):
            return attr_chain(e) == ('self', SANITISER_SOURCE)

        def mentions_source(e, seen_names=()):
            for x in ast.walk(e):
                if is_source(x):
                    return True
                if isinstance(x, ast.Name) and x.id not in seen_names and x.id not in defs.params:
                    for d in defs.defs.get(x.id, []):
                        s = d[1] if d[0] == 'assign' else (d[2] if d[0] in ('unpack', 'aug') else None)
                        if isinstance(s, ast.AST) and mentions_source(s, seen_names + (x.id,)):
                            return True
            return False

        def truth_of_source(t):
            """`t` tests nothing but whether the filename is set: `<src>`, `not <src>`, `<src> is [not] None` (src through locals)."""
            if isinstance(t, ast.UnaryOp) and isinstance(t.op, ast.Not):
                return truth_of_source(t.operand)
            if isinstance(t, ast.Compare) and len(t.ops) == 1 and isinstance(t.ops[0], (ast.Is, ast.IsNot, ast.Eq, ast.NotEq)) \
                    and isinstance(t.comparators[0], ast.Constant) and t.comparators[0].value in _SECURE_FALLBACK:
                t = t.left
            try:
                ts = terminals(t)
            except UnknownIdiom:
                return False
            return bool(ts) and all(is_source(x) or (isinstance(x, ast.Constant) and x.value in _SECURE_FALLBACK) for x in ts)

        def terminals(e, names=()):
            e = strip_await(e)
            if isinstance(e, ast.NamedExpr):
                return terminals(e.value, names)
            if isinstance(e, ast.BoolOp) and isinstance(e.op, ast.Or):
                return [t for v in e.values for t in terminals(v, names)]       # `a or b` is one of its operands, unchanged
            if isinstance(e, ast.IfExp):
                if not truth_of_source(e.test):
                    raise UnknownIdiom('%s: `%s` chooses the sanitised value by a test the rule does not read' % (g.qual, short(e)))
                return terminals(e.body, names) + terminals(e.orelse, names)
            if isinstance(e, ast.Name) and e.id in defs.defs and e.id not in defs.params:
                if e.id in names:
                    return []
                out = []
                for d in defs.defs[e.id]:
                    if d[0] != 'assign':
                        return [e]
                    out += terminals(d[1], names + (e.id,))
                return out
            return [e]

        rets = [n for n in walk_no_nested(g.node) if isinstance(n, ast.Return) and n.value is not None]
        if not rets:
            raise AnchorError('%s returns nothing' % g.qual)
        calls, done = [], set()
        for r in rets:
            for t in terminals(r.value):
                if id(t) in done:
                    continue
                done.add(id(t))
                if is_sanitiser(t):
                    calls.append(t)
                    run.ok('%s BodyPart.secure_filename hands out what the library sanitiser (%s) returned, unchanged' % (tag, SANITISER), g.loc(t), short(t))
                    continue
                inner = [x for x in ast.walk(t) if is_sanitiser(x)]
                if not inner and isinstance(t, ast.Name):
                    inner = [x for d in defs.defs.get(t.id, []) for s in d[1:] if isinstance(s, ast.AST) for x in ast.walk(s) if is_sanitiser(x)]
                if not inner:
                    raise AnchorError('%s: returns `%s`, which is not derived from a call of %s' % (g.qual, short(t), SANITISER))
                calls += inner
                run.fail('%s BodyPart.secure_filename hands out what the library sanitiser (%s) returned, unchanged' % (tag, SANITISER), g, t,
                         where=g.loc(t), runtime_witness="filename='Report.PDF' comes back as something other than secure_filename('Report.PDF')")
        done = set()
        for c in calls:
            if id(c) in done:
                continue
            done.add(id(c))
            if len(c.args) != 1 or c.keywords or isinstance(c.args[0], ast.Starred):
                raise UnknownIdiom('%s: arguments of `%s` not understood' % (g.qual, short(c)))
            n_src = 0
            for t in terminals(c.args[0]):
                what = ('%s BodyPart.secure_filename sanitises the part\'s `filename` itself: nothing is applied to the name between the accessor and '
                        'the sanitiser (tabled fallbacks for an unset name: %s)' % (tag, ', '.join(repr(k) for k in _SECURE_FALLBACK)))
                if is_source(t):
                    n_src += 1
                    run.ok(what, g.loc(t), short(c))
                elif isinstance(t, ast.Constant) and t.value in _SECURE_FALLBACK and (t.value is None or isinstance(t.value, str)):
                    run.sample({'rule': 'R10', 'accessor': g.qual, 'fallback': repr(t.value), 'reason': _SECURE_FALLBACK[t.value]})
                elif mentions_source(t):
                    n_src += 1
                    run.fail(what, g, t, where=g.loc(t), runtime_witness=rw)
                else:
                    raise UnknownIdiom('%s: the sanitiser is given `%s`, which is neither the part\'s filename nor a tabled fallback' % (g.qual, short(t)))
            if n_src == 0:
                raise AnchorError('%s: `%s` never sees self.%s' % (g.qual, short(c), SANITISER_SOURCE))


# ---------------------------------------------------------------------------
# R11 parse_header's quoted-string scan: no extra "correction" terms in the
# whole-fragment quote parity (added after seeded change s6-c13-1)
# ---------------------------------------------------------------------------
# Part names and file names are Content-Disposition parameters; the slow path
# of parse_header() (_parse_param_old_stdlib) decides whether a ';' ends a
# parameter by the PARITY of the unescaped double quotes before it.  A quote is
# escaped iff an ODD run of backslashes stands directly before it, so the exact
# parity is the infinite alternating sum
#     count('"') - count('\\"') + count('\\\\"') - count('\\\\\\"') + ...
# (substring counts over the fragment).  Every finite truncation is right only
# for backslash runs shorter than its last term.  Tabled as accepted (DESIGN
# 1.3 item 5), with its reason:
#   PARITY_TABLE = quotes - (backslash, quote) pairs      [cgi.parse_header of
#     the stdlib, copied verbatim: right for every value in which a quote is
#     preceded by at most one backslash, i.e. for every value the encoder
#     escapes unless it ENDS in a backslash - today's semantics]
# Any other combination of `<text>.count(<backslashes + quote>, 0, end)` terms
# is a violation: an added "correction" term (the three-term sum of the seeded
# patch takes the `\\\"` that encodes backslash + quote INSIDE a value for a
# closing quote: later parameters are glued into the value, filename is None);
# a dropped escaped-quote term counts every `\"` as a closing quote.  A scan
# that is not count arithmetic (a backwards loop over the backslashes before
# the quote, `len(t) - len(t.rstrip('\\'))`, a regular expression) is a
# different algorithm this rule cannot read: unknown idiom.

PARAM_SCAN = 'falcon.util.mediatypes._parse_param_old_stdlib'
# exponents k of the counted patterns `backslash * k + quote` that carry an odd coefficient
PARITY_TABLE = {frozenset({0, 1}): "quotes minus backslash-quote pairs (stdlib cgi._parseparam): a quote closes the string unless a "
                                   "backslash stands directly before it"}


def _count_terms(e, sign=1, out=None):
    """linear combination of `.count(...)` calls: [(sign, call)]; None when `e` is anything else"""
    out = [] if out is None else out
    if isinstance(e, ast.BinOp) and isinstance(e.op, (ast.Add, ast.Sub)):
        if _count_terms(e.left, sign, out) is None:
            return None
        return _count_terms(e.right, sign if isinstance(e.op, ast.Add) else -sign, out)
    if isinstance(e, ast.UnaryOp) and isinstance(e.op, (ast.USub, ast.UAdd)):
        return _count_terms(e.operand, -sign if isinstance(e.op, ast.USub) else sign, out)
    if isinstance(e, ast.Call) and isinstance(e.func, ast.Attribute) and e.func.attr == 'count' and not e.keywords:
        out.append((sign, e))
        return out
    return None


def r11_quoted_string_scan(run):
    """W: Content-Disposition: form-data; name="C:\\\"My Documents\"\\cv.doc"; filename="x"  ->  name swallows `; filename="x`,
    filename is None (a value containing backslash + double quote, followed by another parameter)."""
    p = run.project
    f = p.func(PARAM_SCAN)
    run.use(f)
    # the slow path of parse_header() still goes through this scan
    ph = p.func(PARSE_HEADER)
    reach, todo = set(), [ph]
    while todo:
        g = todo.pop()
        if g.qual in reach:
            continue
        reach.add(g.qual)
        for c in walk_self(g.node):
            if isinstance(c, ast.Call):
                t = p.resolve_callable(g, c.func) if isinstance(c.func, (ast.Name, ast.Attribute)) else None
                if isinstance(t, Func) and t.module is ph.module:
                    todo.append(t)
    if f.qual not in reach:
        raise AnchorError('%s is no longer reached from parse_header()' % PARAM_SCAN)
    parities = []
    for n in walk_self(f.node):
        if isinstance(n, ast.BinOp) and isinstance(n.op, ast.Mod) and isinstance(n.right, ast.Constant) and n.right.value == 2:
            parities.append(n)
        elif isinstance(n, ast.BinOp) and isinstance(n.op, ast.BitAnd) and isinstance(n.right, ast.Constant) and n.right.value == 1:
            parities.append(n)
    counting = [n for n in parities if any(isinstance(x, ast.Call) and isinstance(x.func, ast.Attribute) and x.func.attr == 'count'
                                           for x in ast.walk(n.left))]
    if not counting:
        raise UnknownIdiom('%s: no parity of quote counts found (the quoted-string scan is written some other way)' % f.qual)
    for par in counting:
        terms = _count_terms(par.left)
        if not terms:
            raise UnknownIdiom('%s: parity of %s is not a sum of .count() terms' % (f.qual, short(par.left, 80)))
        coef: Dict[int, int] = {}
        frag = set()
        for sign, c in terms:
            if not c.args or not isinstance(c.args[0], ast.Constant) or not isinstance(c.args[0].value, str):
                raise UnknownIdiom('%s: counted pattern of %s' % (f.qual, short(c, 60)))
            pat = c.args[0].value
            if not pat.endswith('"') or pat[:-1].strip('\\'):
                raise UnknownIdiom('%s: counted pattern %r is not a run of backslashes before a double quote' % (f.qual, pat))
            coef[len(pat) - 1] = coef.get(len(pat) - 1, 0) + sign
            frag.add((ast.dump(c.func.value), tuple(ast.dump(a) for a in c.args[1:])))
        if len(frag) != 1:
            raise UnknownIdiom('%s: the terms of %s count over different fragments' % (f.qual, short(par.left, 80)))
        odd = frozenset(k for k, v in coef.items() if v % 2)
        what = 'parse_header (quoted parameter values): whether a ";" lies inside a quoted string is decided by the parity of ' \
               '`quotes - (backslash, quote) pairs` over the fragment - the tabled stdlib shape; a quote is escaped by the ODD run of ' \
               'backslashes directly before it, which no further substring-count "correction" term can tell'
        if odd in PARITY_TABLE:
            run.ok(what + ' [%s]' % PARITY_TABLE[odd], f.loc(par), par)
            continue
        extra, missing = sorted(odd - {0, 1}), sorted({0, 1} - odd)
        wit = []
        if extra:
            k = extra[0]
            wit.append("extra term(s) %s: a run of %d backslashes before a quote is %s, but the %d-backslash pattern also matches inside every "
                       "longer run - %r (%s) is counted as %s" % (
                           ', '.join(repr('\\' * k2 + '"') for k2 in extra), k, 'an unescaped (closing) quote' if k % 2 == 0 else 'an escaped quote',
                           k, '\\' * (k + 1) + '"', 'escaped backslash(es) + escaped quote' if (k + 1) % 2 else 'escaped backslashes + closing quote',
                           'closing' if k % 2 == 0 else 'escaped'))
        if missing:
            wit.append('missing term(s) %s: %s' % (', '.join(repr('\\' * k2 + '"') for k2 in missing),
                                                   'every escaped quote \\" is counted as a closing quote' if 1 in missing else 'quotes are not counted'))
        run.fail(what, f, par, where=f.loc(par), witness=wit,
                 runtime_witness='Content-Disposition: form-data; name="C:\\\\\\"My Documents\\"\\\\cv.doc"; filename="x" -> the part name swallows '
                                 '`; filename="x` and filename is None')


# ---------------------------------------------------------------------------
# R12 every test that can refuse the boundary admits all RFC 2046 boundaries of
# 1..70 characters (added after seeded change s6-c13-2)
# ---------------------------------------------------------------------------
# The form object is constructed behind a chain of tests on the boundary
# parameter; each of them may only refuse what RFC 2046 refuses.  Every test
# that mentions the boundary and has exactly one outcome leading to the
# construction is evaluated - by the small interpreter below, nothing of falcon
# is run - on PROBE boundaries: 'x' * L for every L in 1..70, and for every
# character c of the RFC 2046 alphabet `c` alone (not for the space) and
# 'x' + c + 'x'.  Read: len(), integer constants, comparisons, and/or/not,
# `<const> in boundary`, truthiness, startswith/endswith of constants, locals
# bound once, and regular-expression validators (`<compiled>.fullmatch/match/
# search(boundary)`, `re.fullmatch(<pattern>, boundary)`, `... is None`): for
# those the pattern constant is parsed with the interpreter's own sre parser
# (`re._parser.parse(...).getwidth()`, a static property of the pattern) and a
# probe whose length lies outside [min width, max width] certainly does not
# match.  A probe on which the test certainly takes its refusing outcome is a
# violation; a test none of whose leaves can be read is an unknown idiom.
# Not decided: whether a validator's character classes cover the alphabet.

RFC2046_BCHARS_NOSPACE = "0123456789ABCDEFGHIJKLMNOPQRSTUVWXYZabcdefghijklmnopqrstuvwxyz'()+_,-./:=?"
_RX_METHODS = ('fullmatch', 'match', 'search')


def _pattern_width(pattern: str):
    try:
        from re import _parser as sre_parse          # Python >= 3.11
    except ImportError:                               # pragma: no cover
        import sre_parse
    try:
        tree = sre_parse.parse(pattern)
    except Exception as e:
        raise UnknownIdiom('boundary pattern %r does not parse: %s' % (pattern, e))
    lo, hi = tree.getwidth()
    anchored_end = bool(tree.data) and str(tree.data[-1][0]) == 'AT' and str(tree.data[-1][1]) in ('AT_END', 'AT_END_STRING')
    return int(lo), int(hi), anchored_end


class _BoundaryTests:
    """The tests of _deserialize_form that gate the construction of the form on the boundary, and a small interpreter that
    evaluates them on a concrete probe boundary (nothing of falcon is run)."""

    NONE = object()          # "no match object"

    def __init__(self, run):
        self.p = p = run.project
        self.f = f = p.func(HANDLER_FORM)
        self.cfg = cfg = cfg_of(f, p)
        run.use_cfg(cfg)
        ctor = [c for n in cfg.live_nodes() if n.kind == 'stmt' and isinstance(n.ast, ast.Return) for c in n.calls()
                if isinstance(c.func, ast.Name) and c.func.id in f.params() and len(c.args) >= 2]
        self.call = single(ctor, 'construction of the form object', f.qual)
        barg = self.call.args[1]
        self.bname = single(sorted({x.id for x in ast.walk(barg) if isinstance(x, ast.Name)}), 'boundary variable in %s' % short(barg), f.qual)
        self.ret_node = single([n.id for n in cfg.live_nodes() if n.kind == 'stmt' and isinstance(n.ast, ast.Return)
                                and any(c is self.call for c in n.calls())], 'return node', f.qual)
        from .c13_helpers import Defs
        self.defs = Defs(f)
        self.readable = 0

    def local_value(self, name: str):
        ds = self.defs.defs.get(name, [])
        if name != self.bname and len(ds) == 1 and ds[0][0] == 'assign':
            return ds[0][1]
        return None

    def mentions(self, e, depth=0) -> bool:
        for x in ast.walk(e):
            if isinstance(x, ast.Name) and isinstance(x.ctx, ast.Load):
                if x.id == self.bname:
                    return True
                v = self.local_value(x.id)
                if v is not None and depth < 4 and self.mentions(v, depth + 1):
                    return True
        return False

    def gates(self):
        """[(test node, the truth value of the test that does NOT lead to the form)]"""
        cfg, out = self.cfg, []
        for t in cfg.live_nodes():
            if t.kind != 'test' or not self.mentions(t.ast):
                continue
            dom = {l: bool(flow.edges_out(cfg, t.id, l)) and all(flow.dominated_by_edge(cfg, self.ret_node, e_) for e_ in flow.edges_out(cfg, t.id, l))
                   for l in ('T', 'F')}
            if dom['T'] != dom['F']:
                out.append((t, not dom['T']))
        return out

    def length_constants(self, e, depth=0) -> Optional[set]:
        """the integer constants of a PURE length test - and/or/not over comparisons of `len(<boundary>)` (or a local bound
        once to it) with integer constants -, whose outcome is therefore constant beyond the largest of them; None otherwise"""
        if depth > 8:
            return None
        if isinstance(e, ast.BoolOp):
            out = set()
            for v in e.values:
                c = self.length_constants(v, depth + 1)
                if c is None:
                    return None
                out |= c
            return out
        if isinstance(e, ast.UnaryOp) and isinstance(e.op, ast.Not):
            return self.length_constants(e.operand, depth + 1)
        if isinstance(e, ast.Compare) and all(isinstance(o, (ast.Lt, ast.LtE, ast.Gt, ast.GtE, ast.Eq, ast.NotEq)) for o in e.ops):
            out, n_len = set(), 0
            for x in [e.left] + list(e.comparators):
                y = x
                if isinstance(y, ast.Name) and self.local_value(y.id) is not None:
                    y = self.local_value(y.id)
                if isinstance(y, ast.Call) and isinstance(y.func, ast.Name) and y.func.id == 'len' and len(y.args) == 1 and not y.keywords \
                        and isinstance(y.args[0], ast.Name) and y.args[0].id == self.bname:
                    n_len += 1
                    continue
                c = self.p.fold(self.f.module, x, self.f.cls, self.f)
                if not isinstance(c, int) or isinstance(c, bool):
                    return None
                out.add(c)
            return out if n_len else None
        return None

    def pattern_of(self, e) -> Optional[str]:
        """the constant pattern behind a compiled-regex expression / a pattern argument"""
        p, f = self.p, self.f
        v = p.fold(f.module, e, f.cls, f)
        if isinstance(v, str):
            return v
        src = e
        if isinstance(e, ast.Name):
            src = f.module.consts.get(e.id)
        elif isinstance(e, ast.Attribute) and isinstance(e.value, ast.Name) and e.value.id in ('self', 'cls') and f.cls is not None:
            src = f.cls.attrs.get(e.attr)
        if isinstance(src, ast.Call) and resolve_alias(p, f.module, src.func, f) == 're.compile' and src.args:
            if len(src.args) > 1 or src.keywords:
                raise UnknownIdiom('%s: boundary pattern %s is compiled with flags' % (f.qual, short(src, 60)))
            v = p.fold(f.module, src.args[0], f.cls, f)
            if isinstance(v, str):
                return v
            raise UnknownIdiom('%s: boundary pattern %s is not a constant' % (f.qual, short(src, 60)))
        return None

    def regex_leaf(self, e, probe: str):
        """NONE when the probe certainly does not match; UNKNOWN otherwise; None when `e` is not a regex test of the boundary"""
        if not (isinstance(e, ast.Call) and isinstance(e.func, ast.Attribute) and e.func.attr in _RX_METHODS and not e.keywords):
            return None
        if resolve_alias(self.p, self.f.module, e.func.value, self.f) == 're':
            if len(e.args) != 2:
                return None
            pat, subj = self.pattern_of(e.args[0]), e.args[1]
        else:
            if len(e.args) != 1:
                return None
            pat, subj = self.pattern_of(e.func.value), e.args[0]
        if pat is None or not (isinstance(subj, ast.Name) and subj.id == self.bname):
            return None
        lo, hi, anchored = _pattern_width(pat)
        self.readable += 1
        n = len(probe)
        if n < lo or (n > hi and (e.func.attr == 'fullmatch' or (anchored and e.func.attr == 'match'))):
            return self.NONE
        return UNKNOWN

    def ev(self, e, probe: str, depth=0):
        """concrete value of `e` for boundary == probe, NONE for "no match", or UNKNOWN"""
        NONE = self.NONE
        if depth > 12:
            return UNKNOWN
        d = depth + 1
        if isinstance(e, ast.Constant):
            return e.value
        if isinstance(e, ast.Name):
            if e.id == self.bname:
                self.readable += 1
                return probe
            v = self.local_value(e.id)
            if v is not None:
                return self.ev(v, probe, d)
            c = self.p.fold(self.f.module, e, self.f.cls, self.f)
            return c if isinstance(c, (int, str)) else UNKNOWN
        r = self.regex_leaf(e, probe)
        if r is not None:
            return r
        if isinstance(e, ast.UnaryOp) and isinstance(e.op, ast.Not):
            v = self.ev(e.operand, probe, d)
            return UNKNOWN if v is UNKNOWN else (True if v is NONE else not v)
        if isinstance(e, ast.BoolOp):
            unknown = False
            for x in e.values:
                v = self.ev(x, probe, d)
                if v is UNKNOWN:
                    unknown = True
                    continue
                t = False if v is NONE else bool(v)
                if t != isinstance(e.op, ast.And):
                    return t                                 # decides whatever the unknown operands are
            return UNKNOWN if unknown else isinstance(e.op, ast.And)
        if isinstance(e, ast.Call) and isinstance(e.func, ast.Name) and e.func.id == 'len' and len(e.args) == 1 and not e.keywords:
            v = self.ev(e.args[0], probe, d)
            return len(v) if isinstance(v, str) else UNKNOWN
        if isinstance(e, ast.Call) and isinstance(e.func, ast.Name) and e.func.id == 'bool' and len(e.args) == 1 and not e.keywords:
            v = self.ev(e.args[0], probe, d)
            return UNKNOWN if v is UNKNOWN else (False if v is NONE else bool(v))
        if isinstance(e, ast.Call) and isinstance(e.func, ast.Attribute) and e.func.attr in ('startswith', 'endswith') and len(e.args) == 1 \
                and not e.keywords:
            v, a = self.ev(e.func.value, probe, d), self.ev(e.args[0], probe, d)
            if isinstance(v, str) and isinstance(a, (str, tuple)):
                return getattr(v, e.func.attr)(a)
            return UNKNOWN
        if isinstance(e, ast.Compare):
            left = self.ev(e.left, probe, d)
            result = True
            for op, ce in zip(e.ops, e.comparators):
                right = self.ev(ce, probe, d)
                if left is UNKNOWN or right is UNKNOWN:
                    return UNKNOWN
                if isinstance(op, (ast.Is, ast.IsNot)):
                    if not (isinstance(ce, ast.Constant) and ce.value is None and left is NONE):
                        return UNKNOWN
                    res = isinstance(op, ast.Is)
                elif left is NONE or right is NONE:
                    return UNKNOWN
                elif isinstance(op, (ast.In, ast.NotIn)):
                    if not (isinstance(left, str) and isinstance(right, (str, tuple, list, frozenset, set))):
                        return UNKNOWN
                    res = (left in right) == isinstance(op, ast.In)
                else:
                    if type(left) is not type(right) or not isinstance(left, (int, str)):
                        return UNKNOWN
                    res = {ast.Lt: left < right, ast.LtE: left <= right, ast.Gt: left > right, ast.GtE: left >= right,
                           ast.Eq: left == right, ast.NotEq: left != right}.get(type(op), UNKNOWN)
                    if res is UNKNOWN:
                        return UNKNOWN
                if not res:
                    result = False
                    break
                left = right
            return result
        return UNKNOWN

    def outcome(self, test, probe: str):
        """True / False: what the test certainly evaluates to for this boundary; UNKNOWN otherwise"""
        v = self.ev(test, probe)
        return v if v is UNKNOWN else (False if v is self.NONE else bool(v))


def r12_boundary_acceptance(run):
    """W: Content-Type: multipart/form-data; boundary=x  ->  400 "Invalid header value" although RFC 2046 (and the length check
    next to it) allow a one-character boundary."""
    B = _BoundaryTests(run)
    f = B.f
    probes = ['x' * n for n in range(1, 71)] + list(RFC2046_BCHARS_NOSPACE) + ['x' + c + 'x' for c in RFC2046_BCHARS_NOSPACE + ' ']
    gates = B.gates()
    for t, refusing in gates:
        B.readable = 0
        bad = None
        for probe in probes:
            if B.outcome(t.ast, probe) is refusing:
                bad = probe
                break
        if not B.readable:
            raise UnknownIdiom('%s: test %s on the boundary is not read' % (f.qual, short(t.ast, 80)))
        what = 'no test on the way to the form object refuses a boundary RFC 2046 allows: 1 to 70 characters of its alphabet, not ending ' \
               'in a space (length tests and the min / max width of regular-expression validators are evaluated on probe boundaries)'
        run.check(bad is None, what, f, t.ast, where='%s:%s' % (f.file, t.lineno),
                  witness=['boundary %r (%d character%s) takes the refusing outcome (%s) of %s' % (
                      bad, len(bad), '' if len(bad) == 1 else 's', str(refusing).lower(), short(t.ast, 80))] if bad is not None else None,
                  runtime_witness='Content-Type: multipart/form-data; boundary=%s is answered with 400 instead of the parsed parts' % (bad or 'x'))
    if not gates:
        raise AnchorError('%s: no test on the boundary guards the construction of the form' % f.qual)


# ---------------------------------------------------------------------------
# R13 the default limits are the documented ones (auto-mutation seeds sa-am01556.. / sa-am01586..)
# ---------------------------------------------------------------------------
# "Configured limits are enforced exactly at their thresholds" includes the DEFAULT configuration: an application that
# never touches parse_options is promised the limits the attribute docstrings of MultipartParseOptions state
# ("(default ``64``)", "(default ``1 MiB``)", "(default ``8192``)").  Doc/code agreement on constants, exact: the number is
# parsed out of the docstring that follows the attribute's annotation in the class body and compared with the folded
# constant the constructor stores.  Where a docstring states no default, the tabled value (with its source) is used.

PARSE_OPTIONS = SYNC_MOD + '.MultipartParseOptions'
_UNITS = {'': 1, 'b': 1, 'byte': 1, 'bytes': 1, 'kib': 2 ** 10, 'mib': 2 ** 20, 'gib': 2 ** 30}
# option -> (documented default, source) - only consulted when the attribute docstring does not state a default
DOCUMENTED_DEFAULTS = {
    OPT_COUNT: (64, 'docs/api/multipart.rst (autoclass MultipartParseOptions), attribute docstring at the time the rule was written: "default ``64``"'),
    OPT_BUFFER: (2 ** 20, 'same source: "default ``1 MiB``"'),
    OPT_HEADERS: (8192, 'same source: "default ``8192``"'),
}


def _documented_default(doc: str, what: str):
    """the value stated as `default ``<n>[ <unit>]``` in an attribute docstring; None when no default is stated"""
    import re
    found = re.findall(r'(?i)\bdefaults?\b(?:\s+(?:is|to|value|of))*\s*:?\s*``([^`]+)``', doc)
    if not found:
        return None
    vals = set()
    for txt in found:
        m = re.fullmatch(r'\s*(\d[\d_,]*)\s*([A-Za-z]*)\s*', txt)
        if m is None or m.group(2).lower() not in _UNITS:
            raise UnknownIdiom('%s: documented default `%s` is not <integer>[ B|KiB|MiB|GiB]' % (what, txt))
        vals.add(int(m.group(1).replace('_', '').replace(',', '')) * _UNITS[m.group(2).lower()])
    if len(vals) != 1:
        raise UnknownIdiom('%s: the docstring states several defaults %s' % (what, sorted(vals)))
    return vals.pop()


def _fold_int(p, f: Func, e, depth=0):
    """integer constant expressions incl. shifts (p.fold covers + - * ** // and named constants)"""
    v = p.fold(f.module, e, f.cls, f)
    if v is UNKNOWN and isinstance(e, ast.BinOp) and isinstance(e.op, (ast.LShift, ast.RShift, ast.Add, ast.Sub, ast.Mult)) and depth < 6:
        l, r = _fold_int(p, f, e.left, depth + 1), _fold_int(p, f, e.right, depth + 1)
        if isinstance(l, int) and isinstance(r, int):
            if isinstance(e.op, ast.LShift):
                return l << r if 0 <= r < 64 else UNKNOWN
            if isinstance(e.op, ast.RShift):
                return l >> r if 0 <= r < 64 else UNKNOWN
            return l + r if isinstance(e.op, ast.Add) else (l - r if isinstance(e.op, ast.Sub) else l * r)
    return v


def r13_documented_defaults(run):
    """W: an application with untouched parse_options: a form of exactly 64 parts / a 1 MiB part read with get_data() / an
    8192-byte header block is rejected (or one of 65 parts / 1 MiB + 1 / 8193 bytes accepted) although the documentation
    promises the limit there; setting the documented value explicitly changes the behaviour."""
    p = run.project
    c = p.cls(PARSE_OPTIONS)
    init = p.lookup_method(PARSE_OPTIONS, '__init__')
    if init is not None:
        run.use(init)
    # attribute docstrings: a string expression statement directly after the attribute's annotation / assignment
    docs: Dict[str, str] = {}
    body = list(c.node.body)
    for i, st in enumerate(body[:-1]):
        tgt = st.target if isinstance(st, ast.AnnAssign) else (st.targets[0] if isinstance(st, ast.Assign) and len(st.targets) == 1 else None)
        nxt = body[i + 1]
        if isinstance(tgt, ast.Name) and isinstance(nxt, ast.Expr) and isinstance(nxt.value, ast.Constant) and isinstance(nxt.value.value, str):
            docs[tgt.id] = nxt.value.value
    for opt in (OPT_BUFFER, OPT_COUNT, OPT_HEADERS):
        what = '%s.%s' % (PARSE_OPTIONS, opt)
        # the constructor's store (or a class-level default)
        stores = []
        if init is not None and init.cls is c:
            stores = [n for n in walk_no_nested(init.node) if isinstance(n, (ast.Assign, ast.AnnAssign)) and n.value is not None and any(
                attr_chain(t) == ('self', opt) for t in (n.targets if isinstance(n, ast.Assign) else [n.target]))]
        owner = init
        if stores:
            if len(stores) != 1:
                raise UnknownIdiom('%s is stored %d times by the constructor' % (what, len(stores)))
            # unconditional: a direct statement of the constructor body
            if stores[0] not in init.node.body:
                raise UnknownIdiom('%s: the default is stored conditionally' % what)
            value = _fold_int(p, init, stores[0].value)
            cons = stores[0]
        elif opt in c.attrs:
            value = p.fold(c.module, c.attrs[opt], c, None)
            cons, owner = c.attr_nodes.get(opt, c.attrs[opt]), None
        else:
            raise AnchorError('%s: no default (neither stored by __init__ nor a class attribute)' % what)
        if isinstance(value, bool) or not isinstance(value, int):
            raise UnknownIdiom('%s: the default `%s` does not fold to an integer constant' % (what, short(cons)))
        documented = _documented_default(docs[opt], what) if opt in docs else None
        source = 'attribute docstring of %s' % what
        if documented is None:
            documented, source = DOCUMENTED_DEFAULTS[opt]
        run.check(value == documented, 'the default of %s is the documented one (%d, %s): the limits promised to an application that leaves '
                  'parse_options alone are the ones enforced' % (opt, documented, source), owner if owner is not None else what, cons,
                  where=(owner.loc(cons) if owner is not None else c.loc(cons)), witness=['constructor default folds to %d; documented %d' % (value, documented)],
                  runtime_witness='default options, a form sized exactly at the documented %s (%d) or one above it: accepted / rejected on the '
                                  'wrong side; `options.%s = %d` (the documented value) changes the behaviour' % (opt, documented, opt, documented))
        run.sample({'rule': 'R13', 'option': opt, 'default': value, 'documented': documented, 'source': source})


# ---------------------------------------------------------------------------
# R14 get_media() drains the part stream exactly when the handler asks for it
# ---------------------------------------------------------------------------

def _r14(run, tag, f: Func, cls):
    p = run.project
    cfg = cfg_of(f, p)
    run.use_cfg(cfg)
    nm = _norm(p, f, cls=cls)
    deser, drains = [], []
    for n in cfg.live_nodes():
        if n.kind in ('entry', 'exit', 'xexit', 'join', 'handler'):
            continue
        for c in n.calls():
            if isinstance(c.func, ast.Attribute) and ATTR_MAP.get(c.func.attr, c.func.attr) == 'deserialize':
                deser.append((n, c))
            elif isinstance(c.func, ast.Attribute) and c.func.attr == 'exhaust' and nm.text(c.func.value) == 'self.stream':
                drains.append((n, c))
    if not deser:
        raise AnchorError('%s: no <handler>.deserialize[_async](...) call' % f.qual)
    hnames = {c.func.value.id if isinstance(c.func.value, ast.Name) else None for (_n, c) in deser}
    if len(hnames) != 1 or None in hnames:
        raise UnknownIdiom('%s: the deserialising handler is not one local (%s)' % (f.qual, ', '.join(short(c.func.value) for (_n, c) in deser)))
    h = hnames.pop()
    streams = {nm.text(c.args[0]) if c.args else None for (_n, c) in deser}
    if streams != {'self.stream'}:
        raise UnknownIdiom('%s: deserialize is not given self.stream' % f.qual)

    def flag(e, depth=0):
        if isinstance(e, ast.Name) and depth < 3 and nm.defs.single(e.id) is not None:
            return flag(nm.defs.single(e.id), depth + 1)         # `drain = handler.exhaust_stream` ... `if drain:`
        return isinstance(e, ast.Attribute) and e.attr == 'exhaust_stream' and isinstance(e.value, ast.Name) and e.value.id == h

    on_edges, off_edges = [], []
    for t in cfg.live_nodes():
        if t.kind != 'test' or not any(flag(x) for x in t.walk()):
            continue
        for (y, l) in cfg.succ[t.id]:
            if l in ('T', 'F'):
                r = implied(t.ast, l == 'T', flag)
                if r is True:
                    on_edges.append((t.id, y, l))
                elif r is False:
                    off_edges.append((t.id, y, l))
    reads_flag = any(isinstance(x, ast.Attribute) and x.attr == 'exhaust_stream' for x in walk_no_nested(f.node))
    if not reads_flag:
        # the drain may have been moved into a helper of the class: a different shape, not read here
        for n in cfg.live_nodes():
            for c in (n.calls() if n.kind in ('stmt', 'test', 'iter', 'with') else []):
                t = p.callee(f, c) if isinstance(c.func, ast.Attribute) and attr_chain(c.func.value) == ('self',) else None
                if t is None and isinstance(c.func, ast.Attribute) and attr_chain(c.func.value) == ('self',) and cls is not None:
                    t = p.lookup_method(cls.qual, c.func.attr)
                if isinstance(t, Func) and any(isinstance(x, ast.Attribute) and x.attr in ('exhaust_stream', 'exhaust') for x in ast.walk(t.node)):
                    raise UnknownIdiom('%s: the drain of the part stream is delegated to %s' % (f.qual, t.qual))
    if reads_flag and not on_edges and not off_edges:
        raise UnknownIdiom('%s: exhaust_stream is read, but no test decides %s.exhaust_stream on an edge' % (f.qual, h))
    rw = ('ASGI/WSGI, parse_options.media_handlers["multipart/mixed"] = MultipartFormHandler() (a lazily read media object, '
          'exhaust_stream False): part.get_media() hands out a nested form whose stream was already drained -> '
          '"unexpected form structure" (400) instead of the nested parts')
    for (n, c) in drains:
        ok = any(flow.dominated_by_edge(cfg, n.id, e) for e in on_edges)
        run.check(ok, '%s BodyPart.get_media(): the part stream is drained only where the handler\'s exhaust_stream flag is known to be set '
                  '(a handler that hands out a lazily read media object keeps its stream)' % tag, f, c, where='%s:%s' % (f.file, n.lineno),
                  runtime_witness=rw)
    # ... and it IS drained when the flag is set: from the deserialize call, every way out (normal or by the handler's own
    # exception) that does not cross an edge on which the flag is known to be clear passes a drain
    def only_deser_exc(a, b, l):
        return l != 'exc' or any(a == n.id for (n, _c) in deser)

    path = flow.find_path(cfg, [n.id for (n, _c) in deser], [cfg.exit, cfg.xexit], avoid_nodes=[n.id for (n, _c) in drains],
                          avoid_edges=off_edges, edge_filter=only_deser_exc)
    run.check(path is None and bool(on_edges or off_edges), '%s BodyPart.get_media(): a handler whose exhaust_stream flag is set has the rest of the '
              'part stream drained on every way out of deserialisation (also when it raises)' % tag, f, deser[0][1],
              where='%s:%s' % (f.file, deser[0][0].lineno), witness=flow.describe_path(cfg, path) if path else None,
              runtime_witness='a handler with exhaust_stream=True that reads only a prefix: the unread rest of the part is left to whoever reads next')


def r14_media_drain(run):
    """The media handler contract (BaseHandler.exhaust_stream: "whether to exhaust the input stream upon finishing
    deserialization") as applied to a body part, in both flavours: drained iff the resolved handler's flag is set."""
    p = run.project
    gs, ga = p.lookup_method(SYNC_PART, 'get_media'), p.lookup_method(ASGI_PART, 'get_media')
    if gs is None or ga is None:
        raise AnchorError('BodyPart.get_media not found')
    _r14(run, 'WSGI', gs, p.cls(SYNC_PART))
    if ga is not gs:
        _r14(run, 'ASGI', ga, p.cls(ASGI_PART))


# ---------------------------------------------------------------------------
# R17 the extended filename is refused by nothing but the codec (seeded change s11-c13-2)
# ---------------------------------------------------------------------------
# "each part comes back with the encoded ... filename (plain or RFC 5987 extended)": for `filename*=charset'lang'value` the only
# legal reject is the codec primitive itself (`bytes.decode(charset)`: LookupError for an unknown label, UnicodeDecodeError for bad
# bytes).  Charset labels are case-insensitive (RFC 5987 3.2.1 / RFC 2978 2.3; `bytes.decode` folds them), and RFC 5987 itself and
# falcon's own `Response.downloadable_as` spell the label `UTF-8`.  So any ADDITIONAL veto on the label - a test on the way from the
# match to the decoding one of whose outcomes never reaches the decoding - must admit utf-8 and iso-8859-1 in any letter case, and so
# must the matcher's pattern.  Decided by evaluating the test (small interpreter below; nothing of falcon is run) on the probe labels
# with module constants folded from the source: membership / equality against constants, .lower() / .upper() / .casefold() / .strip()
# of the label, and / or / not, locals bound once, one-expression project helpers, statement helpers that are handed the label (their
# own tests are judged against their normal return).  A probe that certainly takes the refusing outcome is a violation; a test on the
# label that cannot be evaluated is an unknown idiom.  The matcher: the pattern constant (flags folded) is given to the interpreter's
# `re` on `<label>''%41` and `<label>'en'%41` (membership of five words in the regular language of a source constant).

CHARSET_PROBES = ('utf-8', 'UTF-8', 'Utf-8', 'iso-8859-1', 'ISO-8859-1')
_STR_FOLDS = ('lower', 'upper', 'casefold', 'strip', 'title', 'swapcase', 'capitalize')
_RE_FLAGS = ('I', 'IGNORECASE', 'A', 'ASCII', 'X', 'VERBOSE', 'S', 'DOTALL', 'M', 'MULTILINE', 'U', 'UNICODE')


class _LabelTests:
    """Tests of one function on a string label held by a local / parameter; evaluation for label == probe."""

    MATCH = object()         # "the match object" (truthy, not None)

    def __init__(self, p, f: Func, label: str, match: Optional[str] = None, rebinds=()):
        from .c13_helpers import Defs
        self.p, self.f, self.label, self.match, self.rebinds = p, f, label, match, list(rebinds)
        self.defs = Defs(f)
        self.read = 0
        self.pre: List[str] = []          # case folds the label local has gone through at the point judged (see at())

    def at(self, cfg, nid: int):
        """fix the program point: which case-folding rebinding of the label local (`label = label.lower()`) has happened there"""
        self.pre = []
        if not self.rebinds:
            return
        if len(self.rebinds) > 1:
            raise UnknownIdiom('%s: the charset label `%s` is rebound more than once' % (self.f.qual, self.label))
        tgt, names = self.rebinds[0]
        rb = [n.id for n in cfg.live_nodes() if n.kind == 'stmt' and any(x is tgt for x in n.walk())]
        if not rb:
            raise UnknownIdiom('%s: rebinding of `%s` not found in the control-flow graph' % (self.f.qual, self.label))
        if nid in rb or nid not in flow.reachable(cfg, rb):
            return
        if flow.dominated_by_nodes(cfg, nid, rb):
            self.pre = list(names)
            return
        raise UnknownIdiom('%s: the charset label `%s` is case-folded on some paths to a test on it only' % (self.f.qual, self.label))

    def local_value(self, name: str):
        if name == self.label or name in self.defs.params:
            return None
        return self.defs.single(name)

    def is_label(self, e) -> bool:
        if isinstance(e, ast.Name) and e.id == self.label:
            return True
        # <match>.group(1) / <match>[1]: the charset group itself
        if self.match is not None:
            if isinstance(e, ast.Call) and isinstance(e.func, ast.Attribute) and e.func.attr == 'group' and len(e.args) == 1 and not e.keywords \
                    and isinstance(e.func.value, ast.Name) and e.func.value.id == self.match and isinstance(e.args[0], ast.Constant) and e.args[0].value == 1:
                return True
            if isinstance(e, ast.Subscript) and isinstance(e.value, ast.Name) and e.value.id == self.match and isinstance(e.slice, ast.Constant) \
                    and e.slice.value == 1:
                return True
        return False

    def mentions(self, e, depth=0) -> bool:
        for x in ast.walk(e):
            if self.is_label(x):
                return True
            if isinstance(x, ast.Name) and isinstance(x.ctx, ast.Load) and depth < 4:
                v = self.local_value(x.id)
                if v is not None and self.mentions(v, depth + 1):
                    return True
        return False

    def helper_expr(self, call: ast.Call):
        """(Func, returned expression, {param: argument}) of a project helper whose body is one `return <expr>`"""
        h = self.p.callee(self.f, call)
        if not isinstance(h, Func) or call.keywords or any(isinstance(a, ast.Starred) for a in call.args):
            return None
        body = [b for b in h.node.body if not (isinstance(b, ast.Expr) and isinstance(b.value, ast.Constant) and isinstance(b.value.value, str))]
        if len(body) != 1 or not isinstance(body[0], ast.Return) or body[0].value is None:
            return None
        ps = [a.arg for a in h.node.args.args]
        if h.cls is not None and ps and 'staticmethod' not in h.decorators:
            ps = ps[1:]
        if len(ps) != len(call.args) or h.node.args.vararg or h.node.args.kwarg or h.node.args.kwonlyargs:
            return None
        return h, body[0].value, dict(zip(ps, call.args))

    def ev(self, e, probe: str, depth=0, env=None):
        """concrete value of `e` for label == probe, or UNKNOWN"""
        if depth > 14:
            return UNKNOWN
        d = depth + 1
        e = strip_await(e)
        if env is None and self.is_label(e):
            self.read += 1
            v = probe
            if isinstance(e, ast.Name):
                for nm in self.pre:
                    v = getattr(v, nm)()
            return v
        if isinstance(e, ast.Constant):
            return e.value
        if isinstance(e, ast.Name):
            if env is not None:
                return env[e.id] if e.id in env else self.p.fold(self.f.module, e, self.f.cls, self.f)
            if e.id == self.match:
                return self.MATCH
            v = self.local_value(e.id)
            if v is not None:
                return self.ev(v, probe, d, env)
            c = self.p.fold(self.f.module, e, self.f.cls, self.f)
            return c
        if isinstance(e, (ast.Attribute, ast.Tuple, ast.List, ast.Set, ast.Dict)):
            c = self.p.fold(self.f.module, e, self.f.cls, self.f)
            if c is not UNKNOWN:
                return c
            if isinstance(e, (ast.Tuple, ast.List, ast.Set)):
                vs = [self.ev(x, probe, d, env) for x in e.elts]
                if all(isinstance(v, (str, int, bytes)) for v in vs):
                    return tuple(vs)
            return UNKNOWN
        if isinstance(e, ast.UnaryOp) and isinstance(e.op, ast.Not):
            v = self.ev(e.operand, probe, d, env)
            return UNKNOWN if v is UNKNOWN else not v
        if isinstance(e, ast.BoolOp):
            unknown, last = False, None
            for x in e.values:
                v = self.ev(x, probe, d, env)
                if v is UNKNOWN:
                    unknown = True
                    continue
                last = v
                if bool(v) != isinstance(e.op, ast.And):
                    return UNKNOWN if unknown and not isinstance(v, bool) else v
            return UNKNOWN if unknown else last
        if isinstance(e, ast.IfExp):
            c = self.ev(e.test, probe, d, env)
            return UNKNOWN if c is UNKNOWN else self.ev(e.body if c else e.orelse, probe, d, env)
        if isinstance(e, ast.Call) and isinstance(e.func, ast.Attribute) and not e.keywords:
            recv = self.ev(e.func.value, probe, d, env)
            if isinstance(recv, str):
                if e.func.attr in _STR_FOLDS and not e.args:
                    return getattr(recv, e.func.attr)()
                if e.func.attr in ('startswith', 'endswith') and len(e.args) == 1:
                    a = self.ev(e.args[0], probe, d, env)
                    return getattr(recv, e.func.attr)(a) if isinstance(a, (str, tuple)) and all(isinstance(x, str) for x in ([a] if isinstance(a, str) else a)) \
                        else UNKNOWN
                if e.func.attr == 'replace' and len(e.args) == 2:
                    a, b = self.ev(e.args[0], probe, d, env), self.ev(e.args[1], probe, d, env)
                    return recv.replace(a, b) if isinstance(a, str) and isinstance(b, str) else UNKNOWN
        if isinstance(e, ast.Call) and isinstance(e.func, ast.Name) and e.func.id in ('str', 'bool') and len(e.args) == 1 and not e.keywords \
                and self.p.resolve_expr(self.f.module, e.func, self.f) in (None, 'builtins.' + e.func.id):
            v = self.ev(e.args[0], probe, d, env)
            if e.func.id == 'bool':
                return UNKNOWN if v is UNKNOWN else bool(v)
            return v if isinstance(v, str) else UNKNOWN
        if isinstance(e, ast.Call):
            c = self.p.fold(self.f.module, e, self.f.cls, self.f)
            if c is not UNKNOWN:
                return c
            he = self.helper_expr(e)
            if he is not None and depth < 6:
                h, body, binding = he
                vals = {k: self.ev(a, probe, d, env) for k, a in binding.items()}
                sub = _LabelTests(self.p, h, '\0no label\0')
                v = sub.ev(body, probe, d, vals)
                return v
            return UNKNOWN
        if isinstance(e, ast.Compare):
            left = self.ev(e.left, probe, d, env)
            for op, ce in zip(e.ops, e.comparators):
                right = self.ev(ce, probe, d, env)
                if left is UNKNOWN or right is UNKNOWN:
                    return UNKNOWN
                if isinstance(op, (ast.Is, ast.IsNot)) and left is self.MATCH and isinstance(ce, ast.Constant) and ce.value is None:
                    res = isinstance(op, ast.IsNot)
                elif left is self.MATCH or right is self.MATCH:
                    return UNKNOWN
                elif isinstance(op, (ast.In, ast.NotIn)):
                    if not (isinstance(left, str) and isinstance(right, (str, tuple, list, frozenset, set, dict))):
                        return UNKNOWN
                    res = (left in right) == isinstance(op, ast.In)
                elif isinstance(op, (ast.Eq, ast.NotEq)):
                    if not (isinstance(left, str) and isinstance(right, str)):
                        return UNKNOWN
                    res = (left == right) == isinstance(op, ast.Eq)
                else:
                    return UNKNOWN
                if not res:
                    return False
                left = right
            return True
        return UNKNOWN

    def gates(self, cfg, goals, within=None):
        """[(test node, refusing truth value)]: live tests that mention the label and exactly one of whose outcomes can still reach a goal"""
        out = []
        for t in cfg.live_nodes():
            if t.kind != 'test' or (within is not None and t.id not in within) or not self.mentions(t.ast):
                continue
            can = {}
            for l in ('T', 'F'):
                tg = [b for (_a, b, _l) in flow.edges_out(cfg, t.id, l)]
                can[l] = bool(tg) and bool(set(flow.reachable(cfg, tg)) & set(goals))
            if can['T'] != can['F']:
                out.append((t, not can['T']))
        return out

    def judge(self, test) -> Dict[str, object]:
        """{probe label: True / False / UNKNOWN}"""
        res = {}
        for probe in CHARSET_PROBES:
            v = self.ev(test, probe)
            res[probe] = UNKNOWN if v is UNKNOWN else bool(v)
        return res


def _r17_gates(run, tag, x, what, rw, seen_helpers, depth=0):
    """the tests (own and of statement helpers handed the label) between the match and the decoding; number judged"""
    p, f = run.project, x['func']
    cfg = cfg_of(f, p)
    run.use_cfg(cfg)
    L = _LabelTests(p, f, x['label'], x['match'], x['rebinds'])
    sites = set(x['sites'])
    region = {n.id for n in cfg.live_nodes() if any(flow.dominated_by_edge(cfg, n.id, e) for e in x['edges'])}
    n = 0
    # (the tests the match edges leave are judged too: `if match and match.group(1) in <set>:` vetoes inside the match test)
    for t, refusing in L.gates(cfg, sites, within=region | {e[0] for e in x['edges']}):
        L.at(cfg, t.id)
        n += _r17_verdict(run, tag, L, f, t, refusing, what, rw)
    # statement helpers on the way to the decoding that are handed the label
    before = region & set(flow.co_reachable(cfg, sites))
    for node in cfg.live_nodes():
        if node.id not in before or node.id in sites:
            continue
        for c in node.calls():
            if c is x['decode'] or any(c is y for y in ast.walk(x['decode'])):
                continue
            idx = [i for i, a in enumerate(c.args) if L.mentions(a)] + [k.arg for k in c.keywords if k.arg and L.mentions(k.value)]
            if not idx:
                continue
            h = p.callee(f, c)
            if not isinstance(h, Func) or h.qual in seen_helpers or L.helper_expr(c) is not None:
                continue          # external (codecs.lookup: the primitive; logging) / one-expression helper (read where it is tested)
            seen_helpers.add(h.qual)
            run.use(h)
            ps = [a.arg for a in h.node.args.args]
            if h.cls is not None and ps and 'staticmethod' not in h.decorators:
                ps = ps[1:]
            names = [ps[i] if isinstance(i, int) and i < len(ps) else i for i in idx]
            names = [nm for nm in names if isinstance(nm, str)]
            if len(names) != 1 or not all(L.is_label(a) for a in c.args if L.mentions(a)):
                raise UnknownIdiom('%s: the charset label is handed to %s in a way the rule does not read (%s)' % (f.qual, h.qual, short(c, 70)))
            hc = cfg_of(h, p)
            run.use_cfg(hc)
            HL = _LabelTests(p, h, names[0])
            for t, refusing in HL.gates(hc, {hc.exit}):
                n += _r17_verdict(run, tag, HL, h, t, refusing, what, rw)
    return n


def _r17_verdict(run, tag, L, f, t, refusing, what, rw) -> int:
    L.read = 0
    res = L.judge(t.ast)
    bad = [pr for pr in CHARSET_PROBES if res[pr] is refusing]
    if not bad and any(v is UNKNOWN for v in res.values()):
        raise UnknownIdiom('%s: the test %s on the charset label of the extended parameter cannot be evaluated on the probe labels' % (
            f.qual, short(t.ast, 80)))
    run.check(not bad, '%s %s' % (tag, what), f, t.ast, where='%s:%s' % (f.file, t.lineno),
              witness=['label %r takes the outcome (%s) of `%s` that never reaches the decoding' % (b, str(refusing).lower(), short(t.ast, 80))
                       for b in bad] or None,
              runtime_witness=rw % (bad[0] if bad else 'UTF-8'))
    return 1


def _r17_matcher(run, tag, x, rw):
    """the matcher's pattern admits <label>'<lang>'<value> for every probe label"""
    import re as _re
    p, f, rx = run.project, x['func'], x['regex']
    flags = 0
    fl = list(rx.args[1:2]) + [k.value for k in rx.keywords if k.arg == 'flags']
    if len(rx.args) > 2 or any(k.arg != 'flags' for k in rx.keywords):
        raise UnknownIdiom('%s: matcher %s is compiled in a way the rule does not read' % (f.qual, short(rx, 70)))
    for e in fl:
        parts, stack = [], [e]
        while stack:
            y = stack.pop()
            if isinstance(y, ast.BinOp) and isinstance(y.op, ast.BitOr):
                stack += [y.left, y.right]
            else:
                parts.append(y)
        for y in parts:
            q = p.resolve_expr(x['regex_module'], y) or ''
            if not (q.startswith('re.') and q[3:] in _RE_FLAGS):
                raise UnknownIdiom('%s: flag %s of matcher %s is not read' % (f.qual, short(y), short(rx, 70)))
            flags |= int(getattr(_re, q[3:]))
    try:
        cre = _re.compile(x['pattern'], flags)
    except _re.error as err:
        raise UnknownIdiom('%s: matcher pattern %r does not compile: %s' % (f.qual, x['pattern'], err))
    bad = []
    for probe in CHARSET_PROBES:
        for lang in ('', 'en'):
            word = "%s'%s'%%41" % (probe, lang)
            m = getattr(cre, x['method'])(word)
            if m is None or m.lastindex is None or m.lastindex < 2 or m.group(1) != probe or m.group(2) != '%41':
                bad.append(word)
    run.check(not bad, "%s BodyPart.filename: the matcher of the extended parameter admits charset'language'value for the charset labels utf-8 / "
              "iso-8859-1 in any letter case (with and without a language tag) and hands on the label and the value unchanged" % tag,
              f, 'matcher %s' % short(rx, 90), where=f.loc(x['decode']),
              witness=['%r: no match / other groups with pattern %r' % (w, x['pattern']) for w in bad[:4]] or None,
              runtime_witness=rw % 'UTF-8')


def r17_extended_filename_only_codec_rejects(run):
    """W: Content-Disposition: form-data; name="f"; filename*=UTF-8''%E2%AC%85%20Arrow.txt -> MultipartParseError ("invalid text or
    charset: UTF-8") from part.filename although the codec knows the label (a lower-case-only allow-list compared case-sensitively)."""
    p = run.project
    what = ('BodyPart.filename: no test between the match of the extended parameter and its decoding refuses the charset labels utf-8 / iso-8859-1 '
            'in any letter case (the codec - LookupError / UnicodeDecodeError of bytes.decode - is the only judge of the label)')
    rw = "filename*=%s''%%E2%%AC%%85%%20Arrow.txt is refused (400) or loses its name although bytes.decode knows the charset"
    done = set()
    for tag, cq in (('WSGI', SYNC_PART), ('ASGI', ASGI_PART)):
        cls = p.cls(cq)
        g = p.lookup_method(cq, 'filename')
        if g is None:
            from .c13_helpers import property_alias
            g = property_alias(p, cq, 'filename')
        if g is None:
            raise AnchorError('%s.filename not found' % cq)
        run.use(g)
        an = _ExactParam(run, g, cls, 'filename', True)
        an.analyse()
        if not an.ext:
            if any(not r[0] for r in an.records):
                continue        # R10 reports the departure from the tabled decoding; nothing to judge here
            raise AnchorError('%s: no RFC 5987 decoding of `filename*` recognised' % g.qual)
        for x in an.ext:
            key = (x['func'].qual, id(x['decode']))
            if key in done:
                run.ok('%s BodyPart.filename: the extended-parameter decoding is inherited unchanged' % tag, g.loc(), '%s.filename' % cq)
                continue
            done.add(key)
            _r17_matcher(run, tag, x, rw)
            n = _r17_gates(run, tag, x, what, rw, set())
            if n == 0:
                run.ok('%s %s [no test on the label there today]' % (tag, what), x['func'].loc(x['decode']), short(x['decode']))


def check(run):
    run.assume('reader semantics (C14) are taken as given: read_until(d, n, consume_delimiter=True) returns at most n bytes and '
               'raises DelimiterError unless d follows; pipe_until(d, consume_delimiter=True) skips to and over d')
    run.rule('R1', r1_siblings, 'sync and async parsers are event-language-equal (iterators, every public BodyPart member, property aliases)', floor=12)
    run.rule('R2', r2_thresholds, 'limits are enforced exactly at their thresholds (normal forms)', floor=22)
    run.rule('R3', r3_only_parse_error, 'only MultipartParseError (a 400) escapes iteration and the part accessors; conversion failures are mapped, not swallowed', floor=29)
    run.rule('R4', r4_delimiter, 'delimiter evolution and the value given to delimit()', floor=2)
    # the header-block limit is enforced through read_until(CRLF+CRLF, max_headers_size): it holds independently of the
    # transport's chunking only if that size-capped read never hands out the first bytes of a delimiter (C14 R7)
    from . import c14 as _c14
    run.rule('R7', _c14.r6_search_start, 'delimiter searches never look at consumed bytes (shared with C14 R6)', floor=6)
    run.rule('R8', r8_parse_header_fast_path, 'parse_header splits on ";" only when the line has no quoted string', floor=1)
    run.rule('R5', _c14.r7_delimiter_not_split, 'header-size-capped read never splits a delimiter (shared with C14)', floor=1)
    run.rule('R6', _c14.r10_sync_delimiter_not_split, 'sync reader: a bounded read that stops refilling never hands out the head of a straddling delimiter (shared with C14)', floor=1)
    # part contents are independent of the transport's chunking on ASGI only if a delimiter never spans three chunks of the reader's
    # source: every chunk but the last is at least as long as the one-chunk look-ahead of the delimiter search assumes (C14 R11)
    run.rule('R9', _c14.r11_min_chunk, 'ASGI: every normalised source chunk but the last covers the delimiter look-ahead (shared with C14 R11)', floor=3)
    # "each part comes back with exactly the encoded content, independently of ... how much of each earlier part the application chose
    # to read" rests on the readers' cursor: what a delimited read hands out is exactly what the cursor moves over (C14 R8 / R9), or
    # the next part starts inside / behind its first bytes
    run.rule('R15', _c14.r8_cursor_conservation, 'ASGI reader: the bytes a delimited read yields from the buffer are exactly the bytes the cursor moves '
             'over, set before the yield (shared with C14 R8)', floor=9)
    run.rule('R16', _c14.r9_sync_cursor_conservation, 'sync reader: the cursor stands behind the last byte handed out after every replacement / trim / '
             'return - no fabricated bytes, no blind cursor bump (shared with C14 R9)', floor=8)
    run.rule('R10', r10_exact_names, 'BodyPart.name / .filename are exactly the parsed Content-Disposition parameters (RFC 5987 filename* decoding tabled)', floor=4)
    run.rule('R11', r11_quoted_string_scan, "parse_header's quoted-string scan: the quote parity is the tabled `quotes - backslash-quote pairs`; no further "
             'substring-count correction terms', floor=1)
    run.rule('R12', r12_boundary_acceptance, 'every test that can refuse the boundary (length tests, regular-expression validators by min / max width) '
             'admits all RFC 2046 boundaries of 1..70 characters', floor=1)
    run.rule('R13', r13_documented_defaults, 'the default part-count / buffer-size / header-size limits are the ones the attribute docstrings of '
             'MultipartParseOptions document', floor=3)
    run.rule('R14', r14_media_drain, 'BodyPart.get_media() drains the part stream exactly when the resolved handler sets exhaust_stream (both flavours)',
             floor=4)
    run.rule('R17', r17_extended_filename_only_codec_rejects, 'BodyPart.filename: the RFC 5987 extended parameter is refused by nothing but the codec - '
             'the matcher and every test on the charset label admit utf-8 / iso-8859-1 in any letter case', floor=3)
