"""Helpers for C13 (multipart): sibling normaliser (E8), tiny linear forms
(E4 subset), and an Escape subclass with checked exemptions.

Nothing here is specific to source text or positions: locals are identified by
their definitions, callees/classes by resolution, literals by folding.
"""

from __future__ import annotations

import ast
from typing import Dict, List, Optional, Set, Tuple

from .. import flow
from ..cfg import cfg_of
from ..escape import Escape, _codec_args
from ..model import (UNKNOWN, AnchorError, Class, Func, Project, UnknownIdiom, attr_chain, func_owner_class,
                     local_names, short, walk_no_nested)
from .common import enclosing_map, implied, strip_await, walk_self


# ---------------------------------------------------------------------------
# name / class resolution through module-level aliases
# ---------------------------------------------------------------------------

def resolve_alias(p: Project, module, expr, func=None, _depth=0) -> Optional[str]:
    """Qualified name of a Name/Attribute chain, following module-level
    aliases (`X = other.Y`) until a class/function/opaque name is reached."""
    q = p.resolve_expr(module, expr, func)
    seen = set()
    while q and q not in p.classes and q not in p.funcs and q not in seen and _depth < 12:
        seen.add(q)
        head, _, tail = q.rpartition('.')
        m = p.modules.get(head)
        if m is None or tail not in m.consts:
            break
        val = m.consts[tail]
        if not isinstance(val, (ast.Name, ast.Attribute)):
            break
        q2 = p.resolve_expr(m, val)
        if not q2 or q2 == q:
            break
        q = q2
        _depth += 1
    return q


def raised_class(p: Project, func: Func, raise_stmt: ast.Raise) -> Optional[str]:
    if raise_stmt.exc is None:
        return None
    e = raise_stmt.exc.func if isinstance(raise_stmt.exc, ast.Call) else raise_stmt.exc
    return resolve_alias(p, func.module, e, func)


# ---------------------------------------------------------------------------
# local definitions
# ---------------------------------------------------------------------------

class Defs:
    """Flow-insensitive definition table of the locals of one function."""

    def __init__(self, func: Func):
        self.func = func
        self.params = func.params()
        self.defs: Dict[str, List[tuple]] = {}
        for n in walk_no_nested(func.node):
            if isinstance(n, ast.Assign):
                for t in n.targets:
                    self._target(t, n.value)
            elif isinstance(n, ast.AnnAssign) and n.value is not None:
                self._target(n.target, n.value)
            elif isinstance(n, ast.AugAssign) and isinstance(n.target, ast.Name):
                self.defs.setdefault(n.target.id, []).append(('aug', n.op, n.value, n))
            elif isinstance(n, (ast.For, ast.AsyncFor)):
                for x in ast.walk(n.target):
                    if isinstance(x, ast.Name):
                        self.defs.setdefault(x.id, []).append(('iter', n.iter, n))
            elif isinstance(n, (ast.With, ast.AsyncWith)):
                for it in n.items:
                    if it.optional_vars is not None:
                        for x in ast.walk(it.optional_vars):
                            if isinstance(x, ast.Name):
                                self.defs.setdefault(x.id, []).append(('with', it.context_expr, n))
            elif isinstance(n, ast.ExceptHandler) and n.name:
                self.defs.setdefault(n.name, []).append(('except', n.type, n))
            elif isinstance(n, ast.NamedExpr) and isinstance(n.target, ast.Name):
                self.defs.setdefault(n.target.id, []).append(('assign', n.value, n))

    def _target(self, t, value):
        if isinstance(t, ast.Name):
            self.defs.setdefault(t.id, []).append(('assign', value, t))
        elif isinstance(t, (ast.Tuple, ast.List)):
            for i, e in enumerate(t.elts):
                for x in ast.walk(e):
                    if isinstance(x, ast.Name):
                        self.defs.setdefault(x.id, []).append(('unpack', i, value, t))

    def single(self, name: str):
        """The defining expression of a local bound exactly once by a plain
        assignment (and not a parameter), else None."""
        if name in self.params:
            return None
        d = self.defs.get(name, [])
        if len(d) == 1 and d[0][0] == 'assign':
            v = d[0][1]
            if not any(isinstance(x, ast.Name) and x.id == name for x in ast.walk(v)):
                return v
        return None

    def is_local(self, name: str) -> bool:
        return name in self.params or name in self.defs


_OPS = {ast.Add: '+', ast.Sub: '-', ast.Mult: '*', ast.Mod: '%', ast.FloorDiv: '//', ast.Div: '/', ast.BitOr: '|',
        ast.BitAnd: '&'}
_CMP = {ast.Eq: '==', ast.NotEq: '!=', ast.Lt: '<', ast.LtE: '<=', ast.Gt: '>', ast.GtE: '>=', ast.Is: 'is',
        ast.IsNot: 'is not', ast.In: 'in', ast.NotIn: 'not in'}


def const_repr(v) -> str:
    if isinstance(v, (frozenset, set)):
        return 'frozenset{%s}' % ','.join(sorted(repr(x) for x in v))
    return repr(v)


class Norm:
    """Rename-/alias-/await-insensitive text of expressions of one function.

    * constants are folded (module constants, cross-module aliases);
    * a local bound once is replaced by its definition;
    * a local bound several times becomes `var{...}` (the set of its
      normalised definitions, self-references written `@`) or `_` in
      anonymous mode; parameters are `$name`;
    * non-local names are resolved to qualified names; `qual_map`/`attr_map`
      identify the sibling classes / method names.
    """

    def __init__(self, p: Project, func: Func, cls: Optional[Class] = None, qual_map=None, attr_map=None,
                 receiver_classes=None):
        self.p = p
        self.func = func
        self.cls = cls or func_owner_class(func)
        self.defs = Defs(func)
        self.qual_map = qual_map or {}
        self.attr_map = attr_map or {}
        # normalised receiver text -> class qual (for argument binding)
        self.receiver_classes = receiver_classes or {}
        self._sig_busy: Set[str] = set()
        # set by Events when a helper is read in place of its call (k4-c13-1): parameter -> text of the argument at the call site;
        # hook (call, anon) -> text of the value an inlined helper call returns, or None
        self.param_text: Dict[str, str] = {}
        self.inline_value = None

    # ------------------------------------------------------------ folding
    def fold(self, e):
        e = strip_await(e)
        if isinstance(e, ast.Name) and self.defs.is_local(e.id):
            return UNKNOWN
        try:
            return self.p.fold(self.func.module, e, None, self.func)
        except Exception:  # pragma: no cover - folding is best effort
            return UNKNOWN

    def folded(self, e):
        """Fold through single-definition locals as well."""
        e = strip_await(e)
        v = self.fold(e)
        if v is not UNKNOWN:
            return v
        if isinstance(e, ast.Name):
            d = self.defs.single(e.id)
            if d is not None:
                return self.folded(d)
        return UNKNOWN

    # ------------------------------------------------------------- text
    def text(self, e, anon=False, depth=0, selfname=None) -> str:
        e = strip_await(e)
        if e is None:
            return 'None'
        if depth > 12:
            return '...'
        t = lambda x: self.text(x, anon, depth + 1, selfname)  # noqa: E731
        if not isinstance(e, (ast.Name, ast.Attribute)) or not self._is_local_root(e):
            v = self.fold(e)
            if v is not UNKNOWN:
                return const_repr(v)
        if isinstance(e, ast.Name):
            if selfname is not None and e.id == selfname:
                return '@'
            if e.id in ('self', 'cls'):
                return 'self'
            if self.defs.is_local(e.id):
                d = self.defs.single(e.id)
                if d is not None:
                    return self.text(d, anon, depth + 1, selfname)
                if e.id in self.defs.params and e.id not in self.defs.defs:
                    return self.param_text.get(e.id, '$' + e.id)
                if anon:
                    return '_'
                return self.varsig(e.id, depth)
            q = resolve_alias(self.p, self.func.module, e, self.func)
            if q:
                return self.qual_map.get(q, q)
            return '?' + e.id
        if isinstance(e, ast.Attribute):
            g = self.property_alias(e)
            if g is not None:
                return 'self.%s()' % g.name
            base = t(e.value)
            return base + '.' + self.attr_map.get(e.attr, e.attr)
        if isinstance(e, ast.Call):
            if self.inline_value is not None:
                v = self.inline_value(e, anon)
                if v is not None:
                    return v
            return self.call_text(e, anon, depth, selfname)
        if isinstance(e, ast.Compare):
            parts = [t(e.left)]
            for op, c in zip(e.ops, e.comparators):
                parts.append(_CMP.get(type(op), type(op).__name__))
                parts.append(t(c))
            if len(e.ops) == 1 and isinstance(e.ops[0], (ast.Eq, ast.NotEq)):
                a, b = sorted([parts[0], parts[2]])
                return '(%s %s %s)' % (a, parts[1], b)
            return '(' + ' '.join(parts) + ')'
        if isinstance(e, ast.BoolOp):
            op = ' and ' if isinstance(e.op, ast.And) else ' or '
            return '(' + op.join(t(v) for v in e.values) + ')'
        if isinstance(e, ast.UnaryOp):
            if isinstance(e.op, ast.Not):
                return 'not ' + t(e.operand)
            if isinstance(e.op, ast.USub):
                return '-' + t(e.operand)
            return type(e.op).__name__ + ' ' + t(e.operand)
        if isinstance(e, ast.BinOp):
            if isinstance(e.op, (ast.Add, ast.Sub)):
                # integer sums are commutative: canonical order, constants summed
                terms: List[Tuple[int, ast.AST]] = []

                def flat(x, sign):
                    x = strip_await(x)
                    if isinstance(x, ast.BinOp) and isinstance(x.op, (ast.Add, ast.Sub)):
                        flat(x.left, sign)
                        flat(x.right, sign if isinstance(x.op, ast.Add) else -sign)
                    else:
                        terms.append((sign, x))

                flat(e, 1)
                consts = [(sg, self.fold(x)) for (sg, x) in terms]
                if any(isinstance(v, int) and not isinstance(v, bool) for (_s, v) in consts) and not any(
                        isinstance(v, (bytes, str, tuple, list)) for (_s, v) in consts):
                    k = sum(sg * v for (sg, v) in consts if isinstance(v, int) and not isinstance(v, bool))
                    rest = sorted(('+' if sg > 0 else '-') + t(x) for (sg, x), (_s, v) in zip(terms, consts)
                                  if not (isinstance(v, int) and not isinstance(v, bool)))
                    return '(' + ' '.join(rest + (['%+d' % k] if k else [])) + ')'
            return '(%s %s %s)' % (t(e.left), _OPS.get(type(e.op), type(e.op).__name__), t(e.right))
        if isinstance(e, ast.Subscript):
            return '%s[%s]' % (t(e.value), t(e.slice))
        if isinstance(e, (ast.Tuple, ast.List)):
            return '(' + ', '.join(t(x) for x in e.elts) + ')'
        if isinstance(e, ast.Dict):
            return '{' + ', '.join('%s: %s' % (t(k) if k is not None else '**', t(v)) for k, v in zip(e.keys, e.values)) + '}'
        if isinstance(e, ast.IfExp):
            return '(%s if %s else %s)' % (t(e.body), t(e.test), t(e.orelse))
        if isinstance(e, ast.Constant):
            return repr(e.value)
        if isinstance(e, ast.JoinedStr):
            return 'f' + repr(''.join(x.value if isinstance(x, ast.Constant) and isinstance(x.value, str) else '{}'
                                      for x in e.values))
        if isinstance(e, ast.Starred):
            return '*' + t(e.value)
        if isinstance(e, ast.Slice):
            return '%s:%s:%s' % (t(e.lower) if e.lower else '', t(e.upper) if e.upper else '', t(e.step) if e.step else '')
        if isinstance(e, (ast.Yield, ast.YieldFrom)):
            return 'yield ' + (t(e.value) if e.value is not None else '')
        # comprehensions, lambdas...: opaque, shape only
        return '<%s>' % type(e).__name__

    def _is_local_root(self, e) -> bool:
        while isinstance(e, ast.Attribute):
            e = e.value
        return isinstance(e, ast.Name) and (self.defs.is_local(e.id) or e.id in ('self', 'cls'))

    def varsig(self, name: str, depth=0) -> str:
        if name in self._sig_busy:
            return 'var'
        self._sig_busy.add(name)
        try:
            sigs = set()
            if name in self.defs.params:
                sigs.add('$' + name)
            for d in self.defs.defs.get(name, []):
                if d[0] == 'assign':
                    sigs.add(self.text(d[1], False, depth + 1, selfname=name))
                elif d[0] == 'aug':
                    sigs.add('@%s%s' % (_OPS.get(type(d[1]), '?'), self.text(d[2], False, depth + 1, selfname=name)))
                else:
                    sigs.add(d[0])
            return 'var{' + ' | '.join(sorted(sigs)) + '}'
        finally:
            self._sig_busy.discard(name)

    # -------------------------------------------------------------- calls
    def bound_args(self, call: ast.Call, callee: Optional[Func], anon=False, depth=0, selfname=None) -> str:
        t = lambda x: self.text(x, anon, depth + 1, selfname)  # noqa: E731
        if callee is None or any(isinstance(a, ast.Starred) for a in call.args) or any(k.arg is None for k in call.keywords):
            parts = [t(a) for a in call.args] + sorted('%s=%s' % (k.arg, t(k.value)) for k in call.keywords)
            return ', '.join(parts)
        a = callee.node.args
        pos = [x.arg for x in a.posonlyargs + a.args]
        if pos and pos[0] in ('self', 'cls') and callee.cls is not None:
            pos = pos[1:]
        defaults: Dict[str, ast.AST] = {}
        all_pos = [x.arg for x in a.posonlyargs + a.args]
        for name, dv in zip(all_pos[len(all_pos) - len(a.defaults):], a.defaults):
            defaults[name] = dv
        for x, dv in zip(a.kwonlyargs, a.kw_defaults):
            if dv is not None:
                defaults[x.arg] = dv
        bound: Dict[str, str] = {}
        for i, v in enumerate(call.args):
            key = pos[i] if i < len(pos) else 'arg%d' % i
            bound[key] = t(v)
        for k in call.keywords:
            bound[k.arg] = t(k.value)
        out = []
        for k in sorted(bound):
            if k in defaults:
                dv = self.p.fold(callee.module, defaults[k], None, None)
                if dv is not UNKNOWN and const_repr(dv) == bound[k]:
                    continue
            out.append('%s=%s' % (k, bound[k]))
        return ', '.join(out)

    def callee_of(self, call: ast.Call, anon=False):
        """(label text of the callee, resolved Func|None)."""
        f = strip_await(call).func
        if isinstance(f, ast.Attribute):
            recv = self.text(f.value, anon)
            attr = self.attr_map.get(f.attr, f.attr)
            rc = self.receiver_classes.get(recv)
            if rc is None and recv == 'self' and self.cls is not None:
                rc = self.cls.qual
            target = self.p.lookup_method(rc, f.attr) if rc else None
            if target is None and not self._is_local_root(f):
                q = resolve_alias(self.p, self.func.module, f, self.func)
                if q in self.p.funcs:
                    return self.qual_map.get(q, q), self.p.funcs[q]
                if q in self.p.classes:
                    return self.qual_map.get(q, q), self.p.constructor(self.p.classes[q])
            return recv + '.' + attr, target
        if isinstance(f, ast.Name) and not self.defs.is_local(f.id):
            q = resolve_alias(self.p, self.func.module, f, self.func)
            if q in self.p.funcs:
                return self.qual_map.get(q, q), self.p.funcs[q]
            if q in self.p.classes:
                return self.qual_map.get(q, q), self.p.constructor(self.p.classes[q])
            return (self.qual_map.get(q, q) if q else '?' + f.id), None
        return self.text(f, anon), None

    def call_text(self, call: ast.Call, anon=False, depth=0, selfname=None) -> str:
        name, target = self.callee_of(call, anon)
        return '%s(%s)' % (name, self.bound_args(call, target, anon, depth, selfname))

    # ------------------------------------------------- property aliases
    def property_alias(self, e) -> Optional[Func]:
        """`self.X` where the class binds X = property(f) -> f."""
        if isinstance(e, ast.Attribute) and isinstance(e.value, ast.Name) and e.value.id == 'self' and self.cls is not None:
            return property_alias(self.p, self.cls.qual, e.attr)
        return None


def property_alias(p: Project, cqual: str, attr: str) -> Optional[Func]:
    c, val = p.lookup_class_attr(cqual, attr)
    if val is None:
        return None
    if isinstance(val, ast.Call) and isinstance(val.func, ast.Name) and val.func.id == 'property' and val.args:
        g = val.args[0]
        if isinstance(g, ast.Name):
            return p.lookup_method(c.qual, g.id)
    return None


def eval_order(e) -> List[ast.AST]:
    """Sub-expressions in (approximate) evaluation order: children before
    parents, left to right; does not enter lambdas/comprehension bodies."""
    out: List[ast.AST] = []

    def rec(n):
        if isinstance(n, (ast.Lambda, ast.FunctionDef, ast.AsyncFunctionDef, ast.ClassDef)):
            return
        for c in ast.iter_child_nodes(n):
            rec(c)
        out.append(n)

    rec(e)
    return out


BUILTIN_SILENT = {'builtins.len', 'builtins.isinstance', 'builtins.str', 'builtins.int', 'builtins.bool',
                  'builtins.hasattr', 'builtins.getattr', 'builtins.callable', 'builtins.repr'}


class Events:
    """Event labelling of one function for sibling comparison."""

    def __init__(self, p: Project, func: Func, norm: Norm, test_filter=None, inline=False, filter_factory=None, _depth=0, _seen=()):
        """inline=True: a call of a PRIVATE-TO-THE-FUNCTION helper - a module-level function of the caller's module, or a method of
        the caller's own class called on self - that has no suspension point (not async, no await / yield) is read in place: its
        events are projected where the call stands (parameters = the argument texts of the call site, its `return` is no event
        of the caller, an exception leaving it takes the call statement's exceptional edges).  So a block moved verbatim into
        such a helper gives the word it gave inline (preserving/k4-c13-1)."""
        self.p = p
        self.func = func
        self.norm = norm
        self.cfg = cfg_of(func, p)
        self.filter_factory = filter_factory
        self.test_filter = test_filter or (filter_factory(norm) if filter_factory else (lambda e, txt: True))
        self._cache: Dict[int, List[str]] = {}
        self.inline, self._depth, self._seen = inline, _depth, tuple(_seen) + (func.qual,)
        self._subs: Dict[int, Optional['Events']] = {}
        self.inlined: List[str] = []
        if inline:
            norm.inline_value = self._value_text

    # ------------------------------------------------------------ helpers read in place
    def _sub(self, call: ast.Call, target) -> Optional['Events']:
        """Events of the helper behind `call` when it is read in place, else None"""
        if not self.inline:
            return None
        if id(call) in self._subs:
            return self._subs[id(call)]
        self._subs[id(call)] = None
        f = self.func
        c = strip_await(call)
        if not isinstance(target, Func) or self._depth >= 2 or target.qual in self._seen or target.is_async or target.decorators \
                or target.name.startswith('__') or target.parent is not None or c is not call \
                or any(isinstance(x, (ast.Await, ast.Yield, ast.YieldFrom)) for x in walk_no_nested(target.node)) \
                or any(isinstance(a, ast.Starred) for a in call.args) or any(k.arg is None for k in call.keywords):
            return None
        a = target.node.args
        if a.vararg or a.kwarg or a.posonlyargs:
            return None
        names = [x.arg for x in a.args]
        if isinstance(call.func, ast.Name) and target.cls is None and target.module is f.module:
            cls = None
        elif isinstance(call.func, ast.Attribute) and isinstance(call.func.value, ast.Name) and call.func.value.id == 'self' \
                and target.cls is not None and f.cls is not None and target.cls is f.cls and names[:1] == ['self']:
            cls, names = self.norm.cls, names[1:]
        else:
            return None
        if len(call.args) > len(names):
            return None
        nm = self.norm
        hn = Norm(self.p, target, cls=cls, qual_map=nm.qual_map, attr_map=nm.attr_map, receiver_classes=nm.receiver_classes)
        for name, arg in list(zip(names, call.args)) + [(k.arg, k.value) for k in call.keywords]:
            hn.param_text[name] = nm.text(arg, anon=True)
        sub = Events(self.p, target, hn, None if self.filter_factory else self.test_filter, inline=True, filter_factory=self.filter_factory,
                     _depth=self._depth + 1, _seen=self._seen)
        self._subs[id(call)] = sub
        self.inlined.append(target.qual)
        return sub

    def _value_text(self, call, anon) -> Optional[str]:
        if not isinstance(call, ast.Call):
            return None
        try:
            _name, target = self.norm.callee_of(call, anon=True)
        except Exception:
            return None
        sub = self._sub(call, target)
        if sub is None:
            return None
        rets = [r for r in walk_no_nested(sub.func.node) if isinstance(r, ast.Return) and r.value is not None]
        return sub.norm.text(rets[0].value, anon) if len(rets) == 1 else '_'

    def _exc_ctor_calls(self, node) -> Set[int]:
        if node.kind == 'stmt' and isinstance(node.ast, ast.Raise) and isinstance(node.ast.exc, ast.Call):
            return {id(node.ast.exc)}
        return set()

    def labels(self, n) -> List[str]:
        if n.id in self._cache:
            return self._cache[n.id]
        out: List[str] = []
        nm = self.norm
        if n.kind == 'handler':
            h = n.ast
            if h.type is None:
                out.append('CATCH(*)')
            else:
                types = h.type.elts if isinstance(h.type, ast.Tuple) else [h.type]
                out.append('CATCH(%s)' % ','.join(sorted((resolve_alias(self.p, self.func.module, t, self.func) or '?' + short(t))
                                                         for t in types)))
        elif n.kind in ('stmt', 'test', 'iter', 'with'):
            skip = self._exc_ctor_calls(n)
            for root in n.own():
                for x in eval_order(root):
                    if isinstance(x, ast.Call) and id(x) not in skip:
                        name, target = nm.callee_of(x, anon=True)
                        if name in BUILTIN_SILENT or name.endswith('.format'):
                            continue
                        sub = self._sub(x, target)
                        if sub is not None:
                            out.append(('^INLINE', sub))
                            continue
                        # locals bound several times are anonymous here: their
                        # values are the business of the value rules (R2/R4)
                        out.append('^%s(%s)' % (name, nm.bound_args(x, target, anon=True)))
                    elif isinstance(x, ast.Attribute) and isinstance(x.ctx, ast.Load):
                        g = nm.property_alias(x)
                        if g is not None:
                            out.append('^self.%s()' % g.name)
                    elif isinstance(x, (ast.Yield, ast.YieldFrom)):
                        out.append('^YIELD')
            if n.kind == 'stmt':
                a = n.ast
                if isinstance(a, ast.Raise):
                    if a.exc is None:
                        out.append('^RERAISE')
                    else:
                        q = raised_class(self.p, self.func, a)
                        out.append('^RAISE(%s)' % (nm.qual_map.get(q, q) if q else '?' + short(a.exc, 40)))
                elif isinstance(a, (ast.Assign, ast.AnnAssign)):
                    tg = a.targets if isinstance(a, ast.Assign) else [a.target]
                    for t in tg:
                        if isinstance(t, ast.Subscript):
                            out.append('SETITEM(%s)' % nm.text(t.value, anon=True))
                        elif isinstance(t, ast.Attribute):
                            out.append('SETATTR(%s)' % nm.text(t, anon=True))
                elif isinstance(a, ast.Return) and a.value is not None:
                    out.append('RETURN')
        self._cache[n.id] = out
        return out

    def edge_label(self, a: int, b: int, l: str) -> Optional[str]:
        if l not in ('T', 'F'):
            return None
        n = self.cfg.node(a)
        if n.kind != 'test':
            return None
        # polarity-normal form: `if not X: A else: B` and `if X: B else: A` give the same labelled edges
        test, flip = strip_await(n.ast), False
        while isinstance(test, ast.UnaryOp) and isinstance(test.op, ast.Not):
            test, flip = strip_await(test.operand), not flip
        txt = self.norm.text(test, anon=True)
        if not self.test_filter(test, txt):
            return None
        if flip:
            l = 'F' if l == 'T' else 'T'
        return '%s:%s' % (l, txt)

    def dfa(self):
        # (flow.project indexes exit/xexit unconditionally: guard for functions
        # whose normal or exceptional exit is unreachable, e.g. `while True`
        # without break)
        live = self.cfg.reachable_ids
        if self.inline:
            nfa = flow.NFA()
            start, out_exit, out_xexit = self._build(nfa, top=True)
            nfa.start = start
            if out_exit is not None:
                nfa.accept.add(out_exit)
            if out_xexit is not None:
                fin = nfa.new()
                nfa.add(out_xexit, '!raise', fin, self.cfg.xexit)
                nfa.accept.add(fin)
            return flow.determinise(nfa)
        nfa = flow.project(self.cfg, self.labels, accept_exit=self.cfg.exit in live,
                           accept_xexit='!raise' if self.cfg.xexit in live else None, edge_labeler=self.edge_label)
        return flow.determinise(nfa)

    def _build(self, nfa, top: bool):
        """flow.project with the helpers read in place spliced in: (entry state, state after EXIT | None, state after XEXIT | None)"""
        cfg, live = self.cfg, self.cfg.reachable_ids
        ins, mids, outs, xsrc = {}, {}, {}, {}
        for n in cfg.nodes:
            if n.id not in live:
                continue
            ins[n.id] = cur = nfa.new()
            labels = list(self.labels(n)) if n.kind not in ('entry', 'exit', 'xexit') else []
            if not top:
                labels = [l for l in labels if l != 'RETURN']        # the helper's return is no event of the caller
            xsrc[n.id] = []
            for lab in [l for l in labels if isinstance(l, tuple) or l.startswith('^')]:
                nxt = nfa.new()
                if isinstance(lab, tuple):
                    s_in, s_out, s_x = lab[1]._build(nfa, top=False)
                    nfa.add(cur, None, s_in)
                    if s_out is not None:
                        nfa.add(s_out, None, nxt)
                    if s_x is not None:
                        xsrc[n.id].append(s_x)
                else:
                    nfa.add(cur, lab[1:], nxt, n.id)
                cur = nxt
            mids[n.id] = cur
            for lab in [l for l in labels if not isinstance(l, tuple) and not l.startswith('^')]:
                nxt = nfa.new()
                nfa.add(cur, lab, nxt, n.id)
                cur = nxt
            outs[n.id] = cur
        for n in cfg.nodes:
            if n.id not in live:
                continue
            for (y, l) in cfg.succ[n.id]:
                lab = self.edge_label(n.id, y, l)
                nfa.add(mids[n.id] if l == 'exc' else outs[n.id], lab, ins[y], n.id)
                if l == 'exc':
                    for sx in xsrc[n.id]:
                        nfa.add(sx, None, ins[y])
        return ins[cfg.entry], outs.get(cfg.exit), outs.get(cfg.xexit)


# ---------------------------------------------------------------------------
# linear forms: {atom: coef, '': const}; predicates are `form >= 0`
# ---------------------------------------------------------------------------

Lin = Dict[str, int]


def lin_add(a: Lin, b: Lin, k=1) -> Lin:
    out = dict(a)
    for x, c in b.items():
        out[x] = out.get(x, 0) + k * c
    return {x: c for x, c in out.items() if c != 0}


def lin_const(c: int) -> Lin:
    return {'': c} if c else {}


def lin_key(a: Lin):
    return tuple(sorted(a.items()))


def lin_text(a: Lin) -> str:
    parts = []
    for x, c in sorted(a.items()):
        if x == '':
            parts.append('%+d' % c)
        else:
            parts.append(('%+d*' % c if abs(c) != 1 else ('+' if c > 0 else '-')) + x)
    return ' '.join(parts) or '0'


class Linear:
    def __init__(self, norm: Norm, atom_subst: Optional[Dict[str, Lin]] = None):
        self.norm = norm
        self.subst = atom_subst or {}

    def form(self, e, depth=0) -> Optional[Lin]:
        e = strip_await(e)
        if depth > 10:
            return None
        v = self.norm.fold(e)
        if isinstance(v, bool):
            return None
        if isinstance(v, int):
            return lin_const(v)
        if isinstance(e, ast.Name):
            if e.id in self.subst:
                return dict(self.subst[e.id])
            d = self.norm.defs.single(e.id)
            if d is not None:
                return self.form(d, depth + 1)
            if self.norm.defs.is_local(e.id):
                return {'$' + e.id if e.id in self.norm.defs.params and e.id not in self.norm.defs.defs else 'local:' + e.id: 1}
            return None
        if isinstance(e, ast.BinOp) and isinstance(e.op, (ast.Add, ast.Sub)):
            l, r = self.form(e.left, depth + 1), self.form(e.right, depth + 1)
            if l is None or r is None:
                return None
            return lin_add(l, r, 1 if isinstance(e.op, ast.Add) else -1)
        if isinstance(e, ast.BinOp) and isinstance(e.op, ast.Mult):
            l, r = self.form(e.left, depth + 1), self.form(e.right, depth + 1)
            if l is None or r is None:
                return None
            for a, b in ((l, r), (r, l)):
                if set(a) <= {''}:
                    k = a.get('', 0)
                    return {x: c * k for x, c in b.items() if c * k != 0}
            return None
        if isinstance(e, ast.UnaryOp) and isinstance(e.op, ast.USub):
            v = self.form(e.operand, depth + 1)
            return None if v is None else {x: -c for x, c in v.items()}
        if isinstance(e, ast.Call) and isinstance(e.func, ast.Name) and e.func.id == 'len' and len(e.args) == 1 and not e.keywords:
            return {'len(%s)' % self.atom_text(e.args[0]): 1}
        if isinstance(e, ast.Attribute):
            return {self.atom_text(e): 1}
        return None

    def atom_text(self, e) -> str:
        """Attribute chains keep locals by name (they denote storage)."""
        e = strip_await(e)
        ch = attr_chain(e)
        if ch is not None:
            if len(ch) == 1 and self.norm.defs.is_local(ch[0]):
                return 'local:' + ch[0]
            if ch[0] in ('self', 'cls'):
                return '.'.join(ch)
        return self.norm.text(e)

    # predicates ---------------------------------------------------------
    def conjuncts(self, test, truth: bool) -> Optional[List[tuple]]:
        """Facts implied when `test` evaluates to `truth`: list of
        ('ge', Lin) [Lin >= 0], ('ne', Lin) [Lin != 0], ('eq', Lin),
        ('truthy'|'falsy', atom-text).  None when not expressible."""
        test = strip_await(test)
        if isinstance(test, ast.UnaryOp) and isinstance(test.op, ast.Not):
            return self.conjuncts(test.operand, not truth)
        if isinstance(test, ast.BoolOp):
            if (isinstance(test.op, ast.And) and truth) or (isinstance(test.op, ast.Or) and not truth):
                out = []
                for v in test.values:
                    c = self.conjuncts(v, truth)
                    if c is None:
                        return None
                    out += c
                return out
            if len(test.values) == 1:
                return self.conjuncts(test.values[0], truth)
            return None
        if isinstance(test, ast.Compare):
            items = [test.left] + list(test.comparators)
            pairs = [(items[i], test.ops[i], items[i + 1]) for i in range(len(test.ops))]
            if not truth and len(pairs) != 1:
                return None
            out = []
            for (a, op, b) in pairs:
                fa, fb = self.form(a), self.form(b)
                if fa is None or fb is None:
                    if isinstance(op, (ast.Is, ast.IsNot)):
                        out.append(('other', self.norm.text(test, anon=True)))
                        continue
                    return None
                d = lin_add(fa, fb, -1)  # a - b
                kind = type(op)
                if not truth:
                    kind = {ast.Lt: ast.GtE, ast.LtE: ast.Gt, ast.Gt: ast.LtE, ast.GtE: ast.Lt, ast.Eq: ast.NotEq,
                            ast.NotEq: ast.Eq}.get(kind)
                    if kind is None:
                        return None
                if kind is ast.GtE:
                    out.append(('ge', d))
                elif kind is ast.Gt:
                    out.append(('ge', lin_add(d, lin_const(-1))))
                elif kind is ast.LtE:
                    out.append(('ge', {x: -c for x, c in d.items()}))
                elif kind is ast.Lt:
                    out.append(('ge', lin_add({x: -c for x, c in d.items()}, lin_const(-1))))
                elif kind is ast.Eq:
                    out.append(('eq', d))
                elif kind is ast.NotEq:
                    out.append(('ne', d))
                else:
                    return None
            return out
        f = self.form(test)
        if f is not None and len(f) == 1 and '' not in f and list(f.values()) == [1]:
            return [('truthy' if truth else 'falsy', list(f)[0])]
        return None


def pred_text(c) -> str:
    kind, v = c
    if kind in ('ge',):
        return '%s >= 0' % lin_text(v)
    if kind == 'ne':
        return '%s != 0' % lin_text(v)
    if kind == 'eq':
        return '%s == 0' % lin_text(v)
    return '%s(%s)' % (kind, v)


# ---------------------------------------------------------------------------
# Escape with checked exemptions, alias-aware raises, LookupError of dynamic
# codecs and `X = property(f)` aliases
# ---------------------------------------------------------------------------

class MultipartEscape(Escape):
    def __init__(self, project, exempt_raise_ids: Optional[Dict[int, str]] = None, **kw):
        super().__init__(project, **kw)
        # id(ast.Raise) -> reason; statically justified by the caller
        self.exempt_raise_ids = exempt_raise_ids or {}
        self.prim_sites: Dict[Tuple[str, str], Tuple[str, str, ast.AST]] = {}
        self.raise_sites: Dict[Tuple[str, str], Tuple[str, ast.AST]] = {}

    def _stmt(self, s, func, selfcls, handlers, out, caught_ctx):
        if isinstance(s, ast.Raise) and s.exc is not None:
            if id(s) in self.exempt_raise_ids:
                self.exempt_used['%s :: %s' % (func.qual, short(s, 100))] = self.exempt_raise_ids[id(s)]
                return
            e = s.exc.func if isinstance(s.exc, ast.Call) else s.exc
            is_caught_name = isinstance(e, ast.Name) and caught_ctx is not None and e.id == caught_ctx[0]
            if not is_caught_name:
                q = resolve_alias(self.p, func.module, e, func)
                if (not q or q not in self.p.classes) and isinstance(s.exc, ast.Name):
                    # `error = SomeError(...)` ... `raise error [from err]`: a local bound once to a constructor call
                    d = Defs(func).single(s.exc.id)
                    if isinstance(d, ast.Call):
                        q = resolve_alias(self.p, func.module, d.func, func)
                if q and q in self.p.classes:
                    where = func.loc(s)
                    txt = short(s, 100)
                    self.raise_sites[(where, txt)] = (func.qual, s)
                    self._add(out, q, [(where, txt)], handlers)
                    if isinstance(s.exc, ast.Call):
                        for a in list(s.exc.args) + [k.value for k in s.exc.keywords]:
                            self._expr(a, func, selfcls, handlers, out)
                    return
                self.raise_sites[(func.loc(s), short(s, 100))] = (func.qual, s)
        return super()._stmt(s, func, selfcls, handlers, out, caught_ctx)

    def _prim(self, out, exc, func, node, handlers, why):
        cons = ' '.join(short(node, 200).split())
        self.prim_sites[(func.loc(node), '%s  [%s]' % (short(node, 90), why))] = (func.qual, cons, node)
        return super()._prim(out, exc, func, node, handlers, why)

    def _call(self, n, func, selfcls, handlers, out):
        f = n.func
        if isinstance(f, (ast.Name, ast.Attribute)):
            # constructing an exception object (outside a `raise` statement as well: `error = SomeError(...)`) is treated like
            # `raise SomeError(...)`: the constructor's internals are not part of the escape set, its arguments are
            q = resolve_alias(self.p, func.module, f, func)
            if q and q in self.p.classes and self.p.is_subclass(q, 'builtins.BaseException') is True:
                return
        if isinstance(f, ast.Attribute) and f.attr in ('decode', 'encode'):
            codec, errors = _codec_args(n)
            if codec == '?':
                # a codec name taken from data may be unknown to Python
                self._prim(out, 'builtins.LookupError', func, n, handlers, 'codec name not a constant')
        return super()._call(n, func, selfcls, handlers, out)

    def _subscript(self, n, func, handlers, out):
        # a mapping lookup by a literal str/bytes key raises KeyError when the
        # key is absent (sequence subscripts use ints and stay "in range")
        key = self._literal_key(func, n.slice)
        if key is not None:
            if self._membership_guarded(n, key, func):
                # LBYL: `if k not in d: raise ...` / `if k in d:` dominates the read, the mapping untouched in between
                self.exempt_used['%s :: %s' % (func.qual, short(n, 80))] = 'the key was tested to be in the mapping on every path to the read'
                return
            self._prim(out, 'builtins.KeyError', func, n, handlers, 'mapping lookup by literal key')
            return
        return super()._subscript(n, func, handlers, out)

    def _literal_key(self, func, e):
        """the str / bytes value of a literal key - also through a module-level constant name"""
        if isinstance(e, ast.Constant):
            return e.value if isinstance(e.value, (str, bytes)) else None
        if isinstance(e, (ast.Name, ast.Attribute)):
            v = self.p.fold(func.module, e, func_owner_class(func), func)
            if isinstance(v, (str, bytes)):
                return v
        if isinstance(e, ast.Name):
            d = Defs(func).single(e.id)              # a local bound once to a literal is that literal
            if isinstance(d, ast.Constant) and isinstance(d.value, (str, bytes)):
                return d.value
        return None

    def _membership_guarded(self, n: ast.Subscript, key, func) -> bool:
        """`D[key]` is read only where `key in D` is known to hold: the read is dominated by the branch edge of a
        membership test of the same key in the same mapping expression (a local name or an attribute chain) that
        establishes presence - T arm of `key in D`, F arm of `key not in D`, through and / or / not - or sits behind
        such a test in the same `and` chain / conditional expression; and nothing between the test and the read can
        remove the key (re-binding of D, del D[..], D.pop / popitem / clear, D handed to a call)."""
        dch = attr_chain(n.value)
        if dch is None:
            return False

        def atom(x):
            return (isinstance(x, ast.Compare) and len(x.ops) == 1 and isinstance(x.ops[0], (ast.In, ast.NotIn))
                    and self._literal_key(func, x.left) == key and type(self._literal_key(func, x.left)) is type(key)
                    and attr_chain(x.comparators[0]) == dch)

        def presence(test, truth) -> bool:
            for a in [x for x in walk_self(test) if atom(x)]:
                v = implied(test, truth, lambda e, a=a: e is a)
                if v is not None and v == isinstance(a.ops[0], ast.In):
                    return True
            return False

        # (1) inside one expression: `k in d and d[k] ...`, `d[k] if k in d else ...`
        par = enclosing_map(func.node)
        cur, child = par.get(id(n)), n
        while cur is not None and not isinstance(cur, ast.stmt):
            if isinstance(cur, ast.BoolOp):
                i = [j for j, v in enumerate(cur.values) if v is child]
                if i and any(presence(v, isinstance(cur.op, ast.And)) for v in cur.values[:i[0]]):
                    return True
            if isinstance(cur, ast.IfExp) and ((child is cur.body and presence(cur.test, True)) or (child is cur.orelse and presence(cur.test, False))):
                return True
            child, cur = cur, par.get(id(cur))

        # (2) a dominating branch edge
        cfg = cfg_of(func, self.p)
        sites = [m.id for m in cfg.live_nodes() if any(x is n for x in m.walk())]
        if not sites:
            return False
        edges = [(t.id, y, l) for t in cfg.live_nodes() if t.kind == 'test' for (y, l) in cfg.succ[t.id]
                 if l in ('T', 'F') and presence(t.ast, l == 'T')]
        if not edges:
            return False
        root = dch[0]

        def kills(m) -> bool:
            if m.kind not in ('stmt', 'iter', 'with', 'handler'):
                return False
            if m.kind == 'handler':
                return getattr(m.ast, 'name', None) == root
            for x in m.walk():
                if isinstance(x, ast.Name) and isinstance(x.ctx, (ast.Store, ast.Del)) and x.id == root:
                    return True
                if isinstance(x, ast.Attribute) and isinstance(x.ctx, (ast.Store, ast.Del)) and attr_chain(x) is not None \
                        and dch[:len(attr_chain(x))] == attr_chain(x):
                    return True
                if isinstance(x, ast.Subscript) and isinstance(x.ctx, ast.Del) and attr_chain(x.value) == dch:
                    return True
                if isinstance(x, ast.Call):
                    if isinstance(x.func, ast.Attribute) and attr_chain(x.func.value) == dch and x.func.attr in (
                            'pop', 'popitem', 'clear', '__delitem__', '__init__'):
                        return True
                    if any(attr_chain(a) == dch or (len(dch) > 1 and attr_chain(a) == dch[:1])
                           for a in list(x.args) + [k.value for k in x.keywords] for a in [a.value if isinstance(a, ast.Starred) else a]):
                        return True
            return False

        killers = {m.id for m in cfg.live_nodes() if kills(m)}
        for site in sites:
            ok = False
            for e in edges:
                if not flow.dominated_by_edge(cfg, site, e):
                    continue
                between = flow.reachable(cfg, [e[1]]) & flow.co_reachable(cfg, [site])
                if not ((killers & between) - {site}):
                    ok = True
                    break
            if not ok:
                return False
        return True

    def _attr_read(self, n, func, selfcls, handlers, out):
        rc = self._receiver_class(n.value, func, selfcls)
        if rc is not None:
            g = property_alias(self.p, rc, n.attr)
            if g is not None:
                self.calls_resolved += 1
                sub = self._summ(g, self.p.classes.get(rc))
                for exc, chain in sub.items():
                    self._add(out, exc, [(func.loc(n), 'read of property %s' % short(n, 60))] + chain, handlers)
                return
        return super()._attr_read(n, func, selfcls, handlers, out)


def check(run):
    """Not a property: the selftest driver enumerates every sa/rules/c<NN>*.py
    as a rule module, so this helper exposes an empty `check`."""
    return None
